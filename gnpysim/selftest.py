"""./check selftest --what determinism

Proves that one (VERIF_SEED, engine, task) triple is one exactly repeatable execution: every selected task is run
 (a) in a 16-worker pool, (b) again in a 1-worker pool, (c) in a fresh interpreter under another PYTHONHASHSEED,
and the simulator's own per-task digests (every generated history's oplog and outcome digests, in order) must agree.
"""
import json
import os
import subprocess
import sys

from . import core
from .registry import PROPS

SMALL = {'e1': (6, 25), 'e2': (6, 40), 'e3': (5, 4), 'e4': (5, 5)}


def digests(prop, tasks, examples, jobs, verif_seed):
    spec = PROPS[prop]
    cfg = dict(spec['tiers']['quick'])
    cfg['tasks'], cfg['max_examples'] = tasks, examples
    results = core.run_tasks(spec['module'], prop, 'quick', cfg, verif_seed, jobs, spec['engine'])
    bad = [r for r in results if r['status'] != 'ok']
    return [r['digest'] for r in results], bad


def main(a):
    verif_seed = int(os.environ.get('VERIF_SEED', '0'))
    if a.what == 'digests':          # child mode: print digests of one property
        prop, tasks, examples = a.replay.split(':')
        d, bad = digests(prop, int(tasks), int(examples), 4, verif_seed)
        print('DIGESTS ' + json.dumps({'digests': d, 'bad': [b.get('error', '')[-500:] for b in bad]}))
        return 0
    rc = 0
    triples = 0
    for prop, spec in PROPS.items():
        tasks, examples = SMALL[spec['engine']]
        d16, bad = digests(prop, tasks, examples, 16, verif_seed)
        d1, bad1 = digests(prop, tasks, examples, 1, verif_seed)
        env = dict(os.environ, PYTHONHASHSEED='12345', GNPYSIM_KEEP_HASHSEED='1')
        p = subprocess.run([sys.executable, str(core.VERIF / 'check'), 'selftest', '--what', 'digests', '--replay',
                            f'{prop}:{tasks}:{examples}'], capture_output=True, text=True, env=env, timeout=3000)
        line = next((ln for ln in p.stdout.splitlines() if ln.startswith('DIGESTS ')), None)
        dh = json.loads(line[8:]) if line else {'digests': None, 'bad': [p.stderr[-500:]]}
        same = d16 == d1 == dh['digests'] and not bad and not bad1 and not dh['bad']
        triples += tasks
        print(f'{prop}: {tasks} tasks x {examples} examples: 16 workers / 1 worker / fresh interpreter with '
              f'PYTHONHASHSEED=12345 -> {"identical digests" if same else "DIFFERENT"}')
        if not same:
            rc = 2
            print('   16:', d16, '\n    1:', d1, '\n   hs:', dh)
            for b in bad + bad1:
                print(b.get('error', '')[-800:])
    print(f'determinism selftest: {triples} (property, task) pairs, each executed 3 times -> '
          f'{"OK" if rc == 0 else "HARNESS-NONDETERMINISM"}')
    return rc

"""Engine E2 `spectrum`: histories of spectrum assignments / grid alignments against an interval-set model.

Real code: everything in gnpy.topology.spectrum_assignment (OMS, Bitmap, align_grids, aggregate_oms_bitmap,
compute_n_m, pth_assign_spectrum, ...), gnpy.core.utils.order_slots/restore_order, PathRequest.
Stubbed (synthetic layer only): path elements are bare objects carrying an `oms_id` (that is all
build_path_oms_id_list reads from a line element).  The designed-world layer uses real networks (see e2_world).

Served properties: C14 (allocator safety under histories incl. blocked / raising requests) and
C15 (slot map stays consistent under align/extend histories interleaved with assignments).
"""
from itertools import permutations

from hypothesis import strategies as st
from hypothesis.stateful import RuleBasedStateMachine, rule, initialize, precondition

from gnpy.topology import spectrum_assignment as sa
from gnpy.topology.request import PathRequest
from gnpy.core.exceptions import SpectrumError, ServiceError

from .core import SessionBase, Violation, session_started, session_closed

FREE, OCC, UNUS = sa.BitmapValue.FREE, sa.BitmapValue.OCCUPIED, sa.BitmapValue.UNUSABLE
SLOT = 12.5e9
BITRATE = 100e9


class El:
    """stub line element: the only attribute spectrum assignment reads from path elements"""

    def __init__(self, oms_id):
        self.oms_id = oms_id
        self.uid = f'el-{oms_id}'


class RecordingRequests:
    """Iterable handed to pth_assign_spectrum as `rqs`; snapshots all bitmaps at every request boundary, so that
    the effect of each request inside a multi-request call is observed without touching the code under test."""

    def __init__(self, rqs, snapshot):
        self.rqs = rqs
        self.snapshot = snapshot
        self.snaps = []

    def __iter__(self):
        for r in self.rqs:
            self.snaps.append(self.snapshot())
            yield r


def ranges_of(ns, ms):
    return [(n - m, n + m - 1) for n, m in zip(ns, ms)]


def injective_match(assigned, entries):
    """is there an injection assigned -> entries with N_in in {None, N} and M_in in {None, M}?"""
    if len(assigned) > len(entries):
        return False
    for perm in permutations(range(len(entries)), len(assigned)):
        if all(entries[i][0] in (None, a[0]) and entries[i][1] in (None, a[1]) for a, i in zip(assigned, perm)):
            return True
    return False


class E2Session(SessionBase):
    ENGINE = 'e2'

    def __init__(self, world, props, known=None):
        super().__init__(world, props, known)
        self.grid = sa.DEFAULT_GRID
        self.g = world.get('gslots', 4)
        self.oms_list = []
        self.model = []          # per OMS: dict n -> 'F' | 'O' | 'U' | 'P'
        self.services = []       # per OMS: list of (request_id, nb_wl)
        self.own_extent = []
        self.req_counter = 0
        self.accepted = 0
        self.rejected = 0

    def setup(self):
        if self.world['kind'] == 'net':
            return self._setup_net()
        for o in self.world['oms']:
            self._create(o)
        self._align_and_check('initial')

    # ---------------------------------------------------------------------------------------------------------
    # designed-world layer: real network, real build_oms_list, real routed paths
    def _setup_net(self):
        from . import gn
        from gnpy.core.elements import Roadm, Transceiver, Edfa, Multiband_amplifier
        gn.reset_process_globals()
        try:
            self.equipment, self.network, _ = gn.fresh_designed(self.world)
        except gn.REJECT as e:
            self.discarded = f'world-rejected:{type(e).__name__}'
            return
        bands = set()
        for n in self.network.nodes():
            if isinstance(n, (Edfa, Multiband_amplifier)):
                bands.add(tuple(sorted((b['f_min'], b['f_max']) for b in n.params.bands)))
        if len(bands) > 1:
            self.st.probes['mixed_band_network'] += 1
        try:
            self.oms_list = sa.build_oms_list(self.network, self.equipment)
        except (SpectrumError, ValueError, IndexError, KeyError, StopIteration) as e:
            if 'C15' in self.props:
                sig = 'oms-list-cannot-be-built:' + type(e).__name__ + (':mixed-band-network' if len(bands) > 1 else '')
                if not self.known.is_open('C15', sig):
                    raise Violation('C15', sig, f'build_oms_list on a designed network raised {e!r}'[:400],
                                    signature=sig)
            self.discarded = 'oms-list-cannot-be-built'
            return
        self.fresh_signature = [(list(o.el_id_list), list(o.spectrum_bitmap.freq_index)) for o in self.oms_list]
        self._adopt_fresh_oms_list('designed network')

    def _adopt_fresh_oms_list(self, when):
        self.model, self.services, self.own_extent = [], [], []
        self.__dict__.pop('_bands_cache', None)
        for i, oms in enumerate(self.oms_list):
            bm = oms.spectrum_bitmap
            self.model.append({n: {FREE: 'F', UNUS: 'U', OCC: 'P'}[b] for n, b in zip(bm.freq_index, bm.bitmap)})
            self.services.append([])
            self.own_extent.append((bm.n_min, bm.n_max))
        if 'C15' in self.props:
            self._check_structure(when)
            self._check_partition()
            self._check_usable_bands()

    def do_retype(self, which, pick):
        """what-if on the live network: one single-band amplifier is replaced with another model of the library whose
        band differs (the way auto-design sets a model: params.update_params), then the OMS list is built again on the
        same network object; the usable bands of the new list are judged against the amplifiers as they are now"""
        from gnpy.core.elements import Edfa
        if self.discarded or self.world['kind'] != 'net' or getattr(self, 'cut', None) is not None:
            return {'kind': 'skip'}
        amps = sorted((n for n in self.network.nodes() if isinstance(n, Edfa) and len(n.params.bands) == 1),
                      key=lambda n: n.uid)
        if not amps:
            return {'kind': 'skip'}
        amp = amps[which % len(amps)]
        i = getattr(amp, 'oms_id', None)
        if i is None:
            return {'kind': 'skip'}
        common = self._common_bands(i)
        cur = (amp.params.bands[0]['f_min'], amp.params.bands[0]['f_max'])
        cands = []
        for name, lib in sorted(self.equipment['Edfa'].items()):
            bands = getattr(lib, 'bands', None)
            if lib.type_def != 'variable_gain' or not bands or len(bands) != 1:
                continue
            b = (bands[0]['f_min'], bands[0]['f_max'])
            if b != cur and any(min(b[1], hi) - max(b[0], lo) >= 1e12 for lo, hi in common):
                cands.append(name)
        if not cands:
            return {'kind': 'no-other-band'}
        name = cands[pick % len(cands)]
        amp.params.update_params(self.equipment['Edfa'][name].__dict__)
        amp.type_variety = amp.params.type_variety
        self.st.faults['amplifier_replaced_by_a_model_with_another_band'] += 1
        out = self.do_rebuild(check_same=False)
        self.nontrivial = True
        return {'kind': f'retyped:{name}:{out["kind"]}'}

    def do_cut(self, which):
        """what-if on the live network: both directions of one link are taken out of the graph (the element objects keep
        whatever earlier builds left on them), then the OMS list is built again"""
        if self.discarded or self.world['kind'] != 'net' or getattr(self, 'cut', None) is not None:
            return {'kind': 'skip'}
        links = self.world['meta']['links']
        pairs = sorted({tuple(sorted((l['from'], l['to']))) for l in links})
        if len(pairs) < 2:
            return {'kind': 'skip'}
        a, b = pairs[which % len(pairs)]
        nodes = {n.uid: n for n in self.network.nodes()}
        victims = []
        for oms in self.oms_list:
            ends = {oms.el_id_list[0], oms.el_id_list[-1]}
            if ends == {f'roadm {a}', f'roadm {b}'}:
                victims += [e for e in oms.el_list[1:-1]]
        if not victims:
            return {'kind': 'skip'}
        edges = [(u, v, d) for u, v, d in self.network.edges(data=True) if u in victims or v in victims]
        self.network.remove_nodes_from(victims)
        self.cut = (victims, edges)
        self.st.probes['link_cut_on_live_network'] += 1
        out = self.do_rebuild(check_same=False)
        return {'kind': 'cut:' + out['kind']}

    def do_restore(self):
        if self.discarded or getattr(self, 'cut', None) is None:
            return {'kind': 'skip'}
        victims, edges = self.cut
        self.network.add_nodes_from(victims)
        for u, v, d in edges:
            self.network.add_edge(u, v, **d)
        self.cut = None
        out = self.do_rebuild(check_same=False)
        return {'kind': 'restore:' + out['kind']}

    def do_rebuild(self, check_same=True):
        """the OMS list is built again on the same network object (planning() does this on every call): it must work on
        a network that already went through a build and carried assignments, and give the same fresh partition"""
        if self.discarded or self.world['kind'] != 'net':
            return {'kind': 'skip'}
        first = getattr(self, 'fresh_signature', None)
        try:
            self.oms_list = sa.build_oms_list(self.network, self.equipment)
        except Exception as e:      # noqa
            if 'C15' in self.props:
                raise Violation('C15', 'oms-list-cannot-be-built-again-on-the-same-network', repr(e)[:300])
            self.discarded = 'oms-list-cannot-be-rebuilt'
            return {'kind': 'rebuild-failed'}
        if 'C15' in self.props and check_same and first is not None and \
                first != [(list(o.el_id_list), list(o.spectrum_bitmap.freq_index)) for o in self.oms_list]:
            raise Violation('C15', 'rebuilt-oms-partition-differs', 'second build_oms_list on the same network differs')
        if not check_same:
            # the topology was edited (link cut / restored): this build is the new reference
            self.fresh_signature = [(list(o.el_id_list), list(o.spectrum_bitmap.freq_index)) for o in self.oms_list]
        self._adopt_fresh_oms_list('rebuilt on the same network')
        self.st.probes['oms_list_rebuilt_on_used_network'] += 1
        return {'kind': 'rebuilt'}

    def _check_partition(self):
        from gnpy.core.elements import Roadm, Transceiver
        net = self.network
        seen = {}
        for i, oms in enumerate(self.oms_list):
            els = oms.el_list
            ends_ok = all(isinstance(e, Roadm) or (isinstance(e, Transceiver)) for e in (els[0], els[-1]))
            if not ends_ok or any(isinstance(e, (Roadm, Transceiver)) for e in els[1:-1]):
                raise Violation('C15', 'oms-does-not-run-from-roadm-to-roadm', f'oms {i}: {[e.uid for e in els][:8]}')
            for a, b in zip(els, els[1:]):
                if not net.has_edge(a, b):
                    raise Violation('C15', 'oms-does-not-follow-the-graph', f'oms {i}: {a.uid} -> {b.uid} is no edge')
            for e in els[1:-1]:
                if e.uid in seen:
                    raise Violation('C15', 'element-in-two-oms', f'{e.uid}: oms {seen[e.uid]} and {i}')
                seen[e.uid] = i
                if getattr(e, 'oms_id', None) != i or getattr(e, 'oms', None) is not oms:
                    raise Violation('C15', 'element-oms-backreference-wrong', f'{e.uid}: oms_id {getattr(e, "oms_id", None)}')
        for n in net.nodes():
            if not isinstance(n, (Roadm, Transceiver)) and n.uid not in seen:
                raise Violation('C15', 'line-element-without-oms', n.uid)
        for i, oms in enumerate(self.oms_list):
            r = oms.reversed_oms
            want = [o for o in self.oms_list if o.el_id_list[0] == oms.el_id_list[-1]
                    and o.el_id_list[-1] == oms.el_id_list[0]]
            if r is None:
                if want:
                    raise Violation('C15', 'opposite-direction-not-paired', f'oms {i}')
                continue
            if r not in want:
                raise Violation('C15', 'reversed-oms-is-not-the-opposite-direction', f'oms {i} -> oms {r.oms_id}')
            if len(want) == 1 and r.reversed_oms is not oms:
                raise Violation('C15', 'reversed-oms-pairing-not-mutual', f'oms {i} <-> oms {r.oms_id}')

    def _common_bands(self, i):
        from gnpy.core.elements import Edfa, Multiband_amplifier
        cache = self.__dict__.setdefault('_bands_cache', {})
        if i not in cache:
            si = self.equipment['SI']['default']
            common = None
            for a in [e for e in self.oms_list[i].el_list if isinstance(e, (Edfa, Multiband_amplifier))]:
                iv = [(b['f_min'], b['f_max']) for b in a.params.bands]
                common = iv if common is None else [(max(x0, y0), min(x1, y1)) for x0, x1 in common for y0, y1 in iv
                                                    if max(x0, y0) < min(x1, y1)]
            cache[i] = common if common is not None else [(si.f_min, si.f_max)]
        return cache[i]

    def _check_usable_bands(self):
        """a slot whose nominal frequency lies >= 1 grid step inside a band common to the OMS's amplifiers is FREE;
        >= 1 step outside every common band it is not FREE (the +-1 slot at band edges is not judged)"""
        from gnpy.core.elements import Edfa, Multiband_amplifier
        si = self.equipment['SI']['default']
        for i, oms in enumerate(self.oms_list):
            amps = [e for e in oms.el_list if isinstance(e, (Edfa, Multiband_amplifier))]
            common = None
            for a in amps:
                iv = [(b['f_min'], b['f_max']) for b in a.params.bands]
                if common is None:
                    common = iv
                else:
                    common = [(max(x0, y0), min(x1, y1)) for x0, x1 in common for y0, y1 in iv if max(x0, y0) < min(x1, y1)]
            if common is None:
                common = [(si.f_min, si.f_max)]
            bm = oms.spectrum_bitmap
            for n, b in zip(bm.freq_index, bm.bitmap):
                f = 193.1e12 + n * self.grid
                inside = any(lo + self.grid <= f <= hi - self.grid for lo, hi in common)
                outside = all(f <= lo - self.grid or f >= hi + self.grid for lo, hi in common)
                if inside and b is not FREE:
                    raise Violation('C15', 'slot-inside-common-band-not-usable',
                                    f'oms {i} slot {n} ({f * 1e-12:.5f} THz) inside {common} is {b.name}')
                if outside and b is FREE:
                    raise Violation('C15', 'slot-outside-every-common-band-usable',
                                    f'oms {i} slot {n} ({f * 1e-12:.5f} THz) outside {common} is FREE')

    def _real_paths(self, r):
        from networkx import dijkstra_path, NetworkXNoPath
        from gnpy.topology.request import find_reversed_path
        nodes = {n.uid: n for n in self.network.nodes()}
        a, b = r['route']
        try:
            pth = dijkstra_path(self.network, nodes[f'trx {a}'], nodes[f'trx {b}'], weight='weight')
        except NetworkXNoPath:
            return None, None
        rpth = find_reversed_path(pth) if r['bidir'] else []
        return pth, rpth

    # ---------------------------------------------------------------------------------------------------------
    def _create(self, o):
        lo, hi = o['lo'], o['hi']
        slots = {n: 'U' for n in range(lo, hi + 1)}
        for a, b in o['usable']:
            for n in range(max(a, lo), min(b, hi) + 1):
                slots[n] = 'F'
        bitmap = [FREE if slots[n] == 'F' else UNUS for n in range(lo, hi + 1)]
        oms = sa.OMS(oms_id=len(self.oms_list), el_id_list=[f'r{len(self.oms_list)}a', f'r{len(self.oms_list)}b'],
                     el_list=[])
        oms.update_spectrum(sa.nvalue_to_frequency(lo), sa.nvalue_to_frequency(hi),
                            guardband=self.g * self.grid, existing_spectrum=bitmap, grid=self.grid)
        self.oms_list.append(oms)
        self.model.append(slots)
        self.services.append([])
        self.own_extent.append((lo, hi))

    def world_summary(self):
        from . import worlds
        return worlds.summary(self.world) if self.world['kind'] == 'net' else self.world

    def common_extent(self):
        return min(e[0] for e in self.own_extent), max(e[1] for e in self.own_extent)

    def _align_and_check(self, when):
        before = [dict(m) for m in self.model]
        sa.align_grids(self.oms_list)
        cmin, cmax = self.common_extent()
        padded = False
        for m in self.model:
            for n in range(cmin, cmax + 1):
                if n not in m:
                    m[n] = 'P'
                    padded = True
        if padded:
            self.st.probes['align_padded'] += 1
        if 'C15' in self.props:
            self._check_structure(when)
            self._check_states_c15(when, before)
        return padded

    # ---------------------------------------------------------------------------------------------------------
    # C15 oracles
    def _check_structure(self, when):
        cmin, cmax = self.common_extent()
        for i, oms in enumerate(self.oms_list):
            bm = oms.spectrum_bitmap
            fi = bm.freq_index
            if len(bm.bitmap) != len(fi):
                raise Violation('C15', 'bitmap-length-differs-from-index', f'{when}: oms {i}: {len(bm.bitmap)} '
                                f'!= {len(fi)}')
            if any(b - a != 1 for a, b in zip(fi, fi[1:])):
                dup = [a for a, b in zip(fi, fi[1:]) if b - a != 1][:3]
                sig = 'slot-index-not-unique-contiguous'
                if not self.known.is_open('C15', sig):
                    raise Violation('C15', sig, f'{when}: oms {i}: index not +1 increasing near {dup}',
                                    signature=sig)
            if bm.n_min != fi[0] or bm.n_max != fi[-1]:
                raise Violation('C15', 'n_min-n_max-disagree-with-index', f'{when}: oms {i}: n_min {bm.n_min} '
                                f'n_max {bm.n_max} index {fi[0]}..{fi[-1]}')
            if bm.n_min != cmin or bm.n_max != cmax:
                raise Violation('C15', 'aligned-extents-differ', f'{when}: oms {i}: covers {bm.n_min}..{bm.n_max}, '
                                f'common extent is {cmin}..{cmax}')

    def _check_states_c15(self, when, before):
        for i, oms in enumerate(self.oms_list):
            bm = oms.spectrum_bitmap
            real = dict(zip(bm.freq_index, bm.bitmap))
            for n, s in self.model[i].items():
                r = real.get(n)
                if s == 'F' and r is not FREE:
                    raise Violation('C15', 'usable-slot-lost', f'{when}: oms {i} slot {n}: model FREE, map {r}')
                if s == 'O' and r is not OCC:
                    raise Violation('C15', 'occupancy-moved', f'{when}: oms {i} slot {n}: model OCCUPIED, map {r}')
                if s == 'U' and r is FREE:
                    raise Violation('C15', 'unusable-slot-became-free', f'{when}: oms {i} slot {n}')
                if s == 'U' and r is not UNUS and n in before[i]:
                    raise Violation('C15', 'unusable-slot-changed', f'{when}: oms {i} slot {n}: map {r}')
                if s == 'P' and (r is None or r is FREE):
                    raise Violation('C15', 'alignment-padding-free-or-missing', f'{when}: oms {i} slot {n}: map {r}')

    # ---------------------------------------------------------------------------------------------------------
    # C14 oracles
    def snapshot(self):
        return [list(o.spectrum_bitmap.bitmap) for o in self.oms_list]

    def _occupied_real(self, snap, i):
        fi = self.oms_list[i].spectrum_bitmap.freq_index
        return {n for n, b in zip(fi, snap[i]) if b is OCC}

    def _occupied_model(self, i):
        return {n for n, s in self.model[i].items() if s in 'OP'}

    def _free_on_path(self, path_oms):
        cmin, cmax = self.common_extent()
        return {n for n in range(cmin, cmax + 1) if all(self.model[o].get(n) == 'F' for o in path_oms)}

    def _expect_single(self, r, free, glo, ghi, policy):
        """expected outcome of a single-entry free-N request: ('ok', N, M) | ('blocked', reason) | None (not judged)"""
        (n_in, m_in), = r['slots']
        if n_in is not None:
            return None
        nb_wl, required_m = r['nwl'], r['pcm'] * r['nwl']
        if m_in is not None:
            if nb_wl > m_in // r['pcm']:
                return ('blocked', 'NOT_ENOUGH_RESERVED_SPECTRUM')
            m = m_in
        else:
            m = required_m
        starts = [s for s in range(glo, ghi - 2 * m + 2) if all(x in free for x in range(s, s + 2 * m))]
        if not starts:
            return ('blocked', 'NO_SPECTRUM')
        if m < required_m:
            return ('blocked', 'NO_SPECTRUM')
        s = starts[0] if policy == sa.FIRST_FIT else starts[-1]
        return ('ok', s + m, m)

    def do_assign(self, reqs, policy):
        if self.discarded:
            return {'kind': 'discarded'}
        rqs, pths, rpths = [], [], []
        nomax = len(self.oms_list)
        for r in reqs:
            self.req_counter += 1
            r['id'] = f'q{self.req_counter}'
            rq = PathRequest(request_id=r['id'], source='a', destination='b',
                             bidir=bool(r.get('rpath') or r.get('bidir')),
                             spacing=r['pcm'] * SLOT - r.get('off', 0), bit_rate=BITRATE,
                             path_bandwidth=r['nwl'] * BITRATE,
                             effective_freq_slot=[{'N': n, 'M': m} for n, m in r['slots']])
            if r['preblocked']:
                rq.blocking_reason = r['preblocked']
            rqs.append(rq)
            if self.world['kind'] == 'net':
                pth, rpth = self._real_paths(r)
                if pth is None:
                    return {'kind': 'nopath'}
                r['path'] = sorted({e.oms_id for e in pth if hasattr(e, 'oms_id')})
                r['rpath'] = sorted({e.oms_id for e in rpth if hasattr(e, 'oms_id')})
                pths.append(pth)
                rpths.append(rpth)
                continue
            pths.append([El(o % nomax) for o in r['path']])
            rpths.append([El(o % nomax) for o in r['rpath']])
        rec = RecordingRequests(rqs, self.snapshot)
        raised = None
        try:
            sa.pth_assign_spectrum(pths, rec, self.oms_list, rpths, policy=policy)
        except (SpectrumError, ServiceError, ValueError, IndexError, TypeError) as e:
            raised = e
        snaps = rec.snaps + [self.snapshot()]
        processed = len(rec.snaps)
        kinds = []
        for k in range(processed):
            last = (k == processed - 1)
            kind = self._judge_request(reqs[k], rqs[k], snaps[k], snaps[k + 1], policy,
                                       raised if last else None)
            kinds.append(kind)
        if 'C14' in self.props:
            for i in range(nomax):
                if self._occupied_real(snaps[-1], i) != self._occupied_model(i):
                    diff = sorted(self._occupied_real(snaps[-1], i) ^ self._occupied_model(i))[:8]
                    raise Violation('C14', 'occupancy-not-union-of-accepted', f'oms {i}: slots {diff} differ')
                if [s[0] for s in self.services[i]] != list(self.oms_list[i].service_list) or \
                        sum(s[1] for s in self.services[i]) != self.oms_list[i].nb_channels:
                    raise Violation('C14', 'service-record-not-union-of-accepted',
                                    f'oms {i}: {self.oms_list[i].service_list} / {self.oms_list[i].nb_channels} vs '
                                    f'{self.services[i]}')
        if 'C15' in self.props:
            self._check_structure('after assign')
            self._check_states_c15('after assign', [dict(m) for m in self.model])
        if {'ok'} & set(kinds) and ({'blocked', 'raised', 'preblocked'} & set(kinds) or self.rejected):
            self.nontrivial = True
        return {'kind': '+'.join(kinds), 'N': [rq.N for rq in rqs[:processed]], 'M': [rq.M for rq in rqs[:processed]],
                'raised': type(raised).__name__ if raised else None}

    def _judge_request(self, r, rq, before, after, policy, raised):
        nomax = len(self.oms_list)
        path_oms = sorted({o % nomax for o in r['path']} | {o % nomax for o in r['rpath']})
        cmin, cmax = self.common_extent()
        glo, ghi = cmin + self.g, cmax - self.g
        c14 = 'C14' in self.props
        changed = before != after
        if len(path_oms) == 1 and not r['rpath']:
            self.st.probes['single_oms_unidir_path'] += 1
        if r['rpath']:
            self.st.probes['bidirectional'] += 1
        if len(r['slots']) > 1:
            self.st.probes['multi_slot_request'] += 1
        shape = 'single-oms-path' if len(path_oms) == 1 else 'multi-oms-path'
        # --- request the caller had already blocked
        if r['preblocked']:
            self.st.faults['blocked_request:' + r['preblocked']] += 1
            if c14 and (rq.N is not None or rq.M is not None):
                raise Violation('C14', 'preblocked-request-keeps-labels', f'{r["id"]}: N={rq.N} M={rq.M}')
            if c14 and changed:
                raise Violation('C14', 'preblocked-request-changed-state', r['id'])
            self.rejected += 1
            if not c14:
                self._resync(after)
            return 'preblocked'
        # --- the call raised while processing this request
        if raised is not None:
            self.st.faults['raising_request:' + type(raised).__name__] += 1
            self.rejected += 1
            if not c14:
                # not judged under C15 (atomicity of a raising call is C14's subject); adopt what happened
                if changed:
                    self.st.notes['raising_call_partially_committed_on_mixed_extent_maps'] += 1
                self._resync(after)
            if c14 and changed:
                sig = f'raising-request-changed-state:{shape}'
                if not self.known.is_open('C14', sig):
                    raise Violation('C14', sig, f'{r["id"]} raised {raised!r} and changed spectrum state',
                                    signature=sig)
                self._resync(after)
            if c14 and isinstance(raised, (ValueError, IndexError, TypeError)) and not isinstance(raised, SpectrumError):
                sig = 'user-fixed-N-outside-grid-raises-instead-of-blocking'
                oog = any(n is not None and not cmin <= n <= cmax for n, _ in r['slots'])
                if oog and not self.known.is_open('C14', sig):
                    raise Violation('C14', sig, f'{r["id"]} slots {r["slots"]} grid {cmin}..{cmax}: {raised!r}',
                                    signature=sig)
            return 'raised'
        # --- blocked by the allocator
        if hasattr(rq, 'blocking_reason'):
            self.st.faults['blocked_request:' + rq.blocking_reason] += 1
            self.rejected += 1
            if not c14:
                self._resync(after)
            if c14 and (rq.N is not None or rq.M is not None):
                raise Violation('C14', 'blocked-request-keeps-labels', f'{r["id"]}: N={rq.N} M={rq.M}')
            if c14 and rq.blocking_reason not in ('NO_SPECTRUM', 'NOT_ENOUGH_RESERVED_SPECTRUM'):
                raise Violation('C14', 'unknown-spectrum-blocking-reason', f'{r["id"]}: {rq.blocking_reason}')
            if c14 and changed:
                sig = f'blocked-request-changed-state:{shape}'
                if not self.known.is_open('C14', sig):
                    raise Violation('C14', sig, f'{r["id"]} blocked ({rq.blocking_reason}) but spectrum state changed',
                                    signature=sig)
                self._resync(after)
            if c14 and len(r['slots']) == 1:
                exp = self._expect_single(r, self._free_on_path(path_oms), glo, ghi, policy)
                if exp is not None and exp[0] == 'ok':
                    raise Violation('C14', 'feasible-first-fit-request-blocked',
                                    f'{r["id"]} blocked {rq.blocking_reason}; model places N={exp[1]} M={exp[2]}')
            return 'blocked'
        # --- accepted
        self.accepted += 1
        ns, ms = rq.N, rq.M
        if not c14:
            # C15: "a later assign(N, M) marks exactly [N-M, N+M-1]" on the OMS of the path and nothing elsewhere
            if isinstance(ns, list) and isinstance(ms, list) and all(isinstance(x, int) for x in ns + ms):
                want = {x for a, b in ranges_of(ns, ms) for x in range(a, b + 1)}
                for o in range(nomax):
                    got = self._occupied_real(after, o) - self._occupied_real(before, o)
                    if got != (want if o in path_oms else set()):
                        raise Violation('C15', 'assignment-marks-wrong-slots',
                                        f'{r["id"]} N={ns} M={ms}: oms {o} newly occupied {sorted(got)[:8]}')
                self._occupy(path_oms, ns, ms, r)
            return 'ok'
        if not isinstance(ns, list) or not isinstance(ms, list) or not ns or len(ns) != len(ms) or \
                not all(isinstance(x, int) for x in ns + ms) or not all(m > 0 for m in ms):
            raise Violation('C14', 'accepted-request-without-valid-labels', f'{r["id"]}: N={ns} M={ms}')
        free = self._free_on_path(path_oms)
        rgs = ranges_of(ns, ms)
        for a, b in rgs:
            if a < glo or b > ghi:
                raise Violation('C14', 'assignment-outside-guard-bands',
                                f'{r["id"]}: [{a},{b}] outside [{glo},{ghi}]')
            bad = [x for x in range(a, b + 1) if x not in free]
            if bad:
                states = {o: self.model[o].get(bad[0]) for o in path_oms}
                kind = 'double-booked-slot' if 'O' in states.values() else 'assignment-on-unusable-slot'
                raise Violation('C14', kind, f'{r["id"]}: [{a},{b}] slot {bad[0]} is {states} on path oms')
        if self.world['kind'] == 'net':
            for o in path_oms:
                for x in [x for a, b in rgs for x in range(a, b + 1)]:
                    f = 193.1e12 + x * self.grid
                    if all(f <= lo - self.grid or f >= hi + self.grid for lo, hi in self._common_bands(o)):
                        raise Violation('C14', 'assignment-outside-the-usable-band',
                                        f'{r["id"]}: slot {x} ({f * 1e-12:.5f} THz) is outside the bands common to the '
                                        f'amplifiers of oms {o}: {self._common_bands(o)}')
        allslots = [x for a, b in rgs for x in range(a, b + 1)]
        if len(allslots) != len(set(allslots)):
            raise Violation('C14', 'slots-of-one-request-overlap', f'{r["id"]}: N={ns} M={ms}')
        if sum(ms) < r['pcm'] * r['nwl']:
            raise Violation('C14', 'fewer-slots-than-bandwidth-needs', f'{r["id"]}: M={ms} need {r["pcm"] * r["nwl"]}')
        if not injective_match(list(zip(ns, ms)), [tuple(s) for s in r['slots']]):
            raise Violation('C14', 'user-fixed-value-substituted', f'{r["id"]}: asked {r["slots"]} got N={ns} M={ms}')
        if len(r['slots']) == 1:
            exp = self._expect_single(r, free, glo, ghi, policy)
            if exp is not None:
                if exp[0] == 'blocked':
                    raise Violation('C14', 'infeasible-request-accepted', f'{r["id"]}: N={ns} M={ms}, model: {exp}')
                if (exp[1], exp[2]) != (ns[0], ms[0]):
                    raise Violation('C14', 'not-first-fit', f'{r["id"]} ({policy}): got N={ns} M={ms}, lowest '
                                    f'feasible is N={exp[1]} M={exp[2]}')
        self._occupy(path_oms, ns, ms, r)
        # identical on every OMS of the path
        for o in path_oms:
            if self._occupied_real(after, o) - self._occupied_real(before, o) != set(allslots):
                raise Violation('C14', 'assignment-differs-between-oms-of-path',
                                f'{r["id"]}: oms {o} newly occupied '
                                f'{sorted(self._occupied_real(after, o) - self._occupied_real(before, o))[:6]}.. '
                                f'expected {min(allslots)}..{max(allslots)}')
        return 'ok'

    def _occupy(self, path_oms, ns, ms, r):
        for o in path_oms:
            for a, b in ranges_of(ns, ms):
                for x in range(a, b + 1):
                    if x in self.model[o]:
                        self.model[o][x] = 'O'
            self.services[o].append((r['id'], r['nwl']))

    def _resync(self, after):
        """after a *known* finding: adopt the observed occupancy so the session can go on"""
        for i, oms in enumerate(self.oms_list):
            for n, b in zip(oms.spectrum_bitmap.freq_index, after[i]):
                if b is OCC and self.model[i].get(n) == 'F':
                    self.model[i][n] = 'O'

    # ---------------------------------------------------------------------------------------------------------
    def do_extend(self, lo, hi, usable):
        if self.world['kind'] == 'net':
            return {'kind': 'skip'}
        """a new OMS of a different extent joins the list, then all maps are aligned (as build_oms_list does)"""
        self._create({'lo': lo, 'hi': hi, 'usable': usable})
        padded = self._align_and_check('after extend')
        self.nontrivial = self.nontrivial or (padded and self.accepted > 0)
        return {'kind': 'padded' if padded else 'same'}

    def do_widen(self, which, dl, dh):
        """one OMS of a *built* list gets a fresh, wider map (update_spectrum), then the whole list is aligned again; the
        other maps must keep unique, contiguous indices and their occupancy at its frequency"""
        if self.discarded or self.world['kind'] != 'net' or not self.oms_list:
            return {'kind': 'skip'}
        i = which % len(self.oms_list)
        cmin, cmax = self.common_extent()
        lo, hi = cmin - dl, cmax + dh
        self.oms_list[i].update_spectrum(sa.nvalue_to_frequency(lo), sa.nvalue_to_frequency(hi),
                                         guardband=self.g * self.grid, grid=self.grid)
        self.model[i] = {n: 'F' for n in range(lo, hi + 1)}
        self.services[i] = []
        self.oms_list[i].service_list = []
        self.oms_list[i].nb_channels = 0
        self.own_extent[i] = (lo, hi)
        padded = self._align_and_check('after widening one map of a built list')
        self.st.probes['built_list_realigned_after_widening'] += 1
        return {'kind': 'widened:' + ('padded' if padded else 'same')}

    def do_align(self):
        """re-aligning already aligned maps must change nothing"""
        if self.discarded:
            return {'kind': 'discarded'}
        before = self.snapshot()
        idx = [list(o.spectrum_bitmap.freq_index) for o in self.oms_list]
        self._align_and_check('re-align')
        if 'C15' in self.props and (before != self.snapshot()
                                    or idx != [list(o.spectrum_bitmap.freq_index) for o in self.oms_list]):
            raise Violation('C15', 'realign-not-idempotent', 'align_grids on aligned maps changed them')
        return {'kind': 'noop'}

    def finish(self):
        self.st.outcomes['accepted'] += self.accepted
        self.st.outcomes['rejected'] += self.rejected


# --------------------------------------------------------------------------------------------------------------
# generation

def usable_strategy(lo, hi):
    w = hi - lo
    return st.lists(st.tuples(st.integers(0, w), st.integers(0, w)).map(lambda t: [lo + min(t), lo + max(t)]),
                    min_size=1, max_size=2)


@st.composite
def synthetic_world(draw, prop):
    lo = draw(st.integers(-60, 10))
    width = draw(st.integers(24, 120))
    hi = lo + width
    n_oms = draw(st.integers(1, 5))
    omss = []
    for _ in range(n_oms):
        if prop == 'C15' and draw(st.booleans()):
            a = lo + draw(st.integers(0, 12))
            b = hi - draw(st.integers(0, 12))
        else:
            a, b = lo, hi
        full = draw(st.integers(0, 3)) > 0
        usable = [[a, b]] if full else draw(usable_strategy(a, b))
        omss.append({'lo': a, 'hi': b, 'usable': usable})
    return {'kind': 'syn', 'gslots': 4, 'oms': omss}


def request_strategy():
    slot = st.tuples(st.one_of(st.none(), st.integers(-8, 140)), st.one_of(st.none(), st.integers(1, 14)))
    return st.fixed_dictionaries({
        'path': st.lists(st.integers(0, 4), min_size=1, max_size=3),
        'rpath': st.one_of(st.just([]), st.lists(st.integers(0, 4), min_size=1, max_size=2)),
        'slots': st.lists(slot, min_size=1, max_size=3),
        'pcm': st.sampled_from([4, 2, 3, 6]),
        'nwl': st.integers(1, 5),
        'pre': st.integers(0, 9),
        'oog': st.integers(0, 11),
        'off': st.sampled_from([0, 0, 0, 0, 2.5e9, 10e9, 5e9]),     # spacing off the 12.5 GHz grid (same slot count)
    })


def make_machine(prop, tier, cfg):
    props = {prop}
    from . import worlds

    @st.composite
    def any_world(draw):
        k = draw(st.integers(0, 9))
        if k < 7:
            return draw(synthetic_world(prop))
        if (prop == 'C15' and k < 9) or (prop == 'C14' and k == 8):
            return draw(worlds.multiband_world_strategy())
        return draw(worlds.world_strategy('small'))

    class E2Machine(RuleBasedStateMachine):
        def __init__(self):
            super().__init__()
            self.sess = None

        @initialize(world=any_world(), swarm=st.fixed_dictionaries({
            'oog': st.booleans(), 'pre': st.booleans(), 'last_fit': st.booleans(), 'bad_policy': st.booleans(),
            'multi': st.booleans()}))
        def start(self, world, swarm):
            self.swarm = swarm
            self.sess = E2Session(world, props)
            session_started(self.sess)
            self.sess.boot()

        def _resolve(self, r):
            s = self.sess
            if s.discarded:
                return {'path': [0], 'rpath': [], 'slots': [[None, None]], 'pcm': 4, 'nwl': 1, 'preblocked': None}
            cmin, cmax = s.common_extent()
            slots = []
            oog = self.swarm['oog'] and r['oog'] == 0
            for n, m in r['slots']:
                if n is not None:
                    n = cmin - 8 + n
                    if not oog:
                        n = min(max(n, cmin), cmax)
                    elif n > cmax:
                        n = cmax + 1 + (n - cmax) % 8
                slots.append([n, m])
            pre = None
            if self.swarm['pre'] and r['pre'] < 2:
                pre = ['NO_PATH', 'MODE_NOT_FEASIBLE'][r['pre']]
            out = {'path': r['path'], 'rpath': r['rpath'], 'slots': slots, 'pcm': r['pcm'], 'nwl': r['nwl'],
                   'preblocked': pre, 'off': r['off']}
            if s.world['kind'] == 'net':
                # user-fixed N are placed around the edges of the usable bands (where an off-by-one matters)
                m0 = s.model[0] if s.model else {}
                edges = sorted(n for n, v in m0.items() if v == 'F' and (m0.get(n - 1) != 'F' or m0.get(n + 1) != 'F'))
                if edges:
                    for k_, (n, m) in enumerate(out['slots']):
                        if n is not None:
                            e = edges[(r['path'][-1] + k_) % len(edges)]
                            out['slots'][k_] = [e + (n % 25) - 12, m]
                sites = s.world['meta']['sites']
                a = sites[r['path'][0] % len(sites)]
                b = sites[(r['path'][0] + 1 + (r['path'][-1] % (len(sites) - 1))) % len(sites)]
                out.update({'route': [a, b], 'bidir': bool(r['rpath']), 'path': [], 'rpath': []})
            return out

        @rule(reqs=st.lists(request_strategy(), min_size=1, max_size=3), pol=st.integers(0, 15))
        def assign(self, reqs, pol):
            if not self.swarm['multi']:
                reqs = reqs[:1]
            policy = sa.FIRST_FIT
            if self.swarm['last_fit'] and pol in (1, 2, 3):
                policy = sa.LAST_FIT
            if self.swarm['bad_policy'] and pol == 4:
                policy = '2partition'
            self.sess.apply('assign', {'reqs': [self._resolve(r) for r in reqs], 'policy': policy})

        @precondition(lambda self: self.sess is not None and self.sess.world['kind'] == 'net')
        @rule()
        def rebuild(self):
            self.sess.apply('rebuild', {})

        @precondition(lambda self: self.sess is not None and self.sess.world['kind'] == 'net' and prop == 'C15')
        @rule(which=st.integers(0, 7), restore=st.booleans())
        def cut_or_restore(self, which, restore):
            if getattr(self.sess, 'cut', None) is not None:
                self.sess.apply('restore', {})
            else:
                self.sess.apply('cut', {'which': which})

        if prop == 'C15':
            @precondition(lambda self: self.sess is not None and self.sess.world['kind'] == 'net')
            @rule(which=st.integers(0, 40), pick=st.integers(0, 9))
            def retype(self, which, pick):
                self.sess.apply('retype', {'which': which, 'pick': pick})

            @precondition(lambda self: self.sess is not None and self.sess.world['kind'] == 'net')
            @rule(which=st.integers(0, 30), dl=st.integers(0, 12), dh=st.integers(0, 12))
            def widen(self, which, dl, dh):
                if getattr(self.sess, 'cut', None) is None:
                    self.sess.apply('widen', {'which': which, 'dl': dl, 'dh': dh})

            @rule(dl=st.integers(-10, 10), dh=st.integers(-10, 10), us=st.lists(
                st.tuples(st.integers(0, 100), st.integers(0, 100)), min_size=1, max_size=2))
            def extend(self, dl, dh, us):
                if self.sess.world['kind'] == 'net' or self.sess.discarded:
                    return
                cmin, cmax = self.sess.common_extent()
                lo, hi = cmin + dl, cmax + dh
                if hi - lo < 12:
                    hi = lo + 12
                w = hi - lo
                usable = [[lo + min(a, b) % (w + 1), lo + max(a, b) % (w + 1)] for a, b in us]
                usable = [[min(u), max(u)] for u in usable]
                self.sess.apply('extend', {'lo': lo, 'hi': hi, 'usable': usable})

            @rule()
            def align(self):
                self.sess.apply('align', {})

        def teardown(self):
            if self.sess is not None:
                try:
                    self.sess.close()
                finally:
                    session_closed(self.sess)

    E2Machine.__name__ = f'E2Machine_{prop}'
    return E2Machine


def replay(record, known=None):
    sess = E2Session(record['world'], record['props'], known)
    sess.boot()
    for op, args in record['oplog']:
        sess.apply(op, args)
    sess.close()
    return sess


RULES = {
    'C14': 'one evaluation = one session: a synthetic OMS list (1-5 maps, one common extent, 1-2 usable bands each) '
           'followed by a Hypothesis-drawn history of pth_assign_spectrum calls (1-3 requests each; free/fixed N and M, '
           '1-3 slots, uni/bidirectional, pre-blocked, out-of-grid N, last_fit / unknown policy as per-run swarm '
           'switches). Non-trivial = the session contains at least one accepted and at least one rejected '
           '(blocked / pre-blocked / raising) request; distinct = distinct sequence of (op, per-request outcome kinds).',
    'C15': 'one evaluation = one session: OMS maps of *different* extents aligned at start, then a history of '
           'assignments interleaved with extend (new map of another extent + align_grids) and re-align operations. '
           'Non-trivial = alignment padding was inserted after at least one accepted assignment, or accepted and '
           'rejected requests both occurred; distinct = distinct sequence of (op, outcome kinds).',
}

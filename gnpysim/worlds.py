"""World generator: the documents (equipment, topology, sim-params) a simulated GNPy process is started from.

All documents are plain JSON and go through the public loaders, so parsing/merging code is real.  The strategies
are written so that simpler means smaller (fewer sites, first library entry, round numbers, no user amplifier)."""
import json
from copy import deepcopy
from pathlib import Path

from hypothesis import strategies as st

from .core import REPO

EXAMPLE = REPO / 'gnpy' / 'example-data'
TESTDATA = REPO / 'tests' / 'data'


def _load(p):
    return json.loads(Path(p).read_text())


STOCK_EQPT = _load(EXAMPLE / 'eqpt_config.json')

SITES = ['A', 'B', 'C', 'D', 'E', 'F']

# single band amplifier choices for user-placed amplifiers (all exist in the stock library)
USER_AMPS = ['', 'std_medium_gain', 'std_low_gain', 'std_high_gain', 'std_fixed_gain', 'high_detail_model_example',
             'openroadm_ila_low_noise', 'medium+low_gain', 'operator_model_example']

LENGTHS_KM = [80.0, 50.0, 100.0, 20.0, 120.0, 60.0, 1.0, 160.0, 0.05, 250.0, 35.5, 400.0, 140.0, 130.0]


# --------------------------------------------------------------------------------------------------------------
# equipment

def transceiver_strategy(name, nmodes_max=5, with_penalties=True):
    br = st.sampled_from([(32e9, 37.5e9), (32e9, 50e9), (44e9, 50e9), (44e9, 62.5e9), (64e9, 75e9), (64e9, 87.5e9),
                          (56e9, 62.5e9)])

    @st.composite
    def mode(draw, idx):
        baud, minsp = draw(br)
        osnr = draw(st.integers(16, 64)) / 2.0
        bitrate = draw(st.sampled_from([100e9, 200e9, 300e9, 400e9, 150e9]))
        m = {'format': f'm{idx}', 'baud_rate': baud, 'OSNR': osnr, 'bit_rate': bitrate, 'roll_off': 0.15,
             'tx_osnr': draw(st.sampled_from([40, 35, 45, 100, 38.5])), 'min_spacing': minsp, 'cost': 1}
        off = draw(st.sampled_from([0, 0, 0, 1, -1, 2, 3, 6]))
        if off:
            m['equalization_offset_db'] = off
        if with_penalties and draw(st.integers(0, 2)) == 0:
            pens = []
            if draw(st.booleans()):
                hi = draw(st.sampled_from([4e3, 18e3, 40e3, 100e3, 1e3, 1.4e3, 2.7e3, 3.4e3, 5e3, 6.7e3, 8.4e3, 10e3, 13.4e3]))
                pens += [{'chromatic_dispersion': hi / 2, 'penalty_value': 0.5},
                         {'chromatic_dispersion': hi, 'penalty_value': draw(st.sampled_from([1.0, 0.5, 2.0]))}]
                if draw(st.integers(0, 3)) == 0:
                    pens += [{'chromatic_dispersion': -1e3, 'penalty_value': 0.5}]
            if draw(st.booleans()):
                hi = draw(st.sampled_from([10, 30, 3, 1]))
                pens += [{'pmd': hi, 'penalty_value': draw(st.sampled_from([0.5, 1.0]))}]
            if draw(st.booleans()):
                hi = draw(st.sampled_from([1, 2, 4, 0.5]))
                pens += [{'pdl': hi / 2, 'penalty_value': 0.2}, {'pdl': hi, 'penalty_value': 0.9}]
            if pens:
                m['penalties'] = pens
        return m

    @st.composite
    def trx(draw):
        n = draw(st.integers(1, nmodes_max))
        modes = [draw(mode(i + 1)) for i in range(n)]
        fmax = draw(st.sampled_from([193.35e12, 192.35e12, 195.1e12, 194.35e12]))
        t = {'type_variety': name, 'frequency': {'min': 191.35e12, 'max': fmax}, 'mode': modes}
        return t
    return trx()


@st.composite
def equipment_strategy(draw, flavour):
    eq = deepcopy(STOCK_EQPT)
    span = eq['Span'][0]
    span['power_mode'] = draw(st.sampled_from([True, True, True, False]))
    span['delta_power_range_db'] = draw(st.sampled_from([[-2, 3, 0.5], [0, 0, 0.5], [-1, 1, 0.25], [-3, 0, 1]]))
    span['padding'] = draw(st.sampled_from([10, 10, 8, 12, 6, 11.5]))
    span['EOL'] = draw(st.sampled_from([0, 0, 0.5, 1, 1.5]))
    span['max_length'] = draw(st.sampled_from([150, 150, 100, 200, 120]))
    span['con_in'] = draw(st.sampled_from([0, 0, 0.25, 0.5]))
    span['con_out'] = draw(st.sampled_from([0, 0, 0.25, 0.5]))
    if draw(st.booleans()):
        span['voa_step'] = draw(st.sampled_from([0.5, 0.25, 1.0]))
        span['voa_margin'] = draw(st.sampled_from([1, 0, 2]))
    si = eq['SI'][0]
    band = draw(st.sampled_from([(191.3e12, 195.1e12), (191.3e12, 193.3e12), (191.3e12, 196.1e12),
                                 (192.0e12, 194.0e12)]))
    si['f_min'], si['f_max'] = band
    si['spacing'] = draw(st.sampled_from([50e9, 50e9, 75e9, 100e9, 37.5e9]))
    si['baud_rate'] = 32e9 if si['spacing'] < 75e9 else draw(st.sampled_from([32e9, 64e9]))
    si['power_dbm'] = draw(st.sampled_from([0, 0, 1, -1, 2, -2.5, 3, 1.5, 2.5]))
    si['sys_margins'] = draw(st.sampled_from([2, 0, 1, 3, 1.5]))
    si['tx_osnr'] = draw(st.sampled_from([40, 100, 35]))
    if draw(st.booleans()):
        si['tx_power_dbm'] = draw(st.sampled_from([0, -5, 3]))
    else:
        si.pop('tx_power_dbm', None)
    si['use_si_channel_count_for_design'] = draw(st.sampled_from([True, True, False]))
    # ROADM default entry
    roadm = eq['Roadm'][0]
    eqz = draw(st.integers(0, 3))
    if eqz == 1:
        roadm.pop('target_pch_out_db')
        roadm['target_psd_out_mWperGHz'] = draw(st.sampled_from([3.125e-4, 2e-4, 5e-4]))
    elif eqz == 2:
        roadm.pop('target_pch_out_db')
        roadm['target_out_mWperSlotWidth'] = draw(st.sampled_from([2e-4, 1.5e-4, 3e-4]))
    else:
        roadm['target_pch_out_db'] = draw(st.sampled_from([-20, -18, -22, -17.5]))
    roadm['add_drop_osnr'] = draw(st.sampled_from([38, 100, 33, 30]))
    roadm['pmd'] = draw(st.sampled_from([0, 3e-12, 1e-12]))
    roadm['pdl'] = draw(st.sampled_from([0, 1.5, 0.5]))
    if draw(st.integers(0, 3)) == 0:
        roadm['restrictions'] = {'preamp_variety_list': draw(st.sampled_from([['std_medium_gain'],
                                                                               ['std_low_gain', 'std_medium_gain']])),
                                 'booster_variety_list': draw(st.sampled_from([[], ['std_medium_gain'],
                                                                                ['std_fixed_gain']]))}
    # allowed_for_design flags / aliases on amplifiers
    for amp in eq['Edfa']:
        if amp['type_variety'] in ('std_fixed_gain', 'operator_model_example', 'high_power') and \
                draw(st.integers(0, 4)) == 0:
            amp['allowed_for_design'] = True
    if draw(st.integers(0, 3)) == 0:
        amp = next(a for a in eq['Edfa'] if a['type_variety'] == 'std_medium_gain')
        amp['other_name'] = ['std_medium_gain_bis', 'alias_mg']
    if draw(st.integers(0, 3)) == 0:
        for amp in eq['Edfa']:
            if amp['type_variety'] in draw(st.sampled_from([('std_medium_gain', 'std_low_gain'), ('std_medium_gain',),
                                                            ('std_high_gain', 'std_low_gain', 'std_medium_gain')])):
                amp['out_voa_auto'] = True
    # extra fibre types, among them a dispersion-compensating one (negative dispersion is legal in the library)
    if draw(st.integers(0, 2)) == 0:
        eq['Fiber'].append({'type_variety': 'NEGD', 'dispersion': draw(st.sampled_from([-1.0e-05, -2.0e-05, -4e-06])),
                            'effective_area': 7.2e-11, 'pmd_coef': 1.265e-15})
    if draw(st.integers(0, 2)) == 0:
        # a fibre type with a dispersion slope: accumulated CD (and CD penalties) then differ from channel to channel
        eq['Fiber'].append({'type_variety': 'SLOPE', 'dispersion': 1.67e-05, 'dispersion_slope': 67.0,
                            'effective_area': 8.3e-11, 'pmd_coef': 1.265e-15})
    # transceivers: stock ones kept, plus generated libraries
    ntrx = draw(st.integers(1, 2))
    for i in range(ntrx):
        eq['Transceiver'].append(draw(transceiver_strategy(f'trx{i + 1}')))
    if draw(st.integers(0, 4)) == 0:
        eq['Transceiver'][-1]['other_name'] = ['trx_alias']
    return eq


# --------------------------------------------------------------------------------------------------------------
# topology

def _loc(i, j=0):
    return {'location': {'latitude': float(i), 'longitude': float(j), 'city': None, 'region': ''}}


@st.composite
def user_amp_strategy(draw, uid, allow_types=USER_AMPS):
    tv = draw(st.sampled_from(allow_types))
    el = {'uid': uid, 'type': 'Edfa', 'metadata': _loc(0)}
    if tv:
        el['type_variety'] = tv
    mode = draw(st.integers(0, 3))      # 0 none, 1 gain only, 2 full, 3 partial
    op = {'gain_target': None, 'tilt_target': 0}
    if mode == 1:
        op['gain_target'] = draw(st.sampled_from([20.0, 16.0, 23.5, 12.0, 27.0]))
    elif mode == 2:
        op = {'gain_target': draw(st.sampled_from([20.0, 18.0, 22.5, 25.0])),
              'delta_p': draw(st.sampled_from([0, 1, -1, 2.5, None])),
              'tilt_target': draw(st.sampled_from([0, 0, -1, 1.5])),
              'out_voa': draw(st.sampled_from([0, 1, 3, None, 0.5]))}
    elif mode == 3:
        op = {'gain_target': None, 'delta_p': draw(st.sampled_from([None, 0, 1.5, -2])),
              'tilt_target': draw(st.sampled_from([0, 0.5])), 'out_voa': draw(st.sampled_from([None, 2, 0, 1]))}
        if draw(st.integers(0, 3)) == 0:
            op['in_voa'] = draw(st.sampled_from([0, 1]))
    el['operational'] = op
    return el


@st.composite
def topology_strategy(draw, flavour, eqpt):
    nsites = draw(st.integers(2, 5 if flavour != 'small' else 3))
    sites = SITES[:nsites]
    links = [(draw(st.integers(0, i - 1)), i) for i in range(1, nsites)]
    nextra = draw(st.integers(0, 3 if flavour != 'small' else 1))
    for _ in range(nextra):
        a = draw(st.integers(0, nsites - 1))
        b = draw(st.integers(0, nsites - 1))
        if a != b and (min(a, b), max(a, b)) not in [(min(x), max(x)) for x in links]:
            links.append((a, b))
    fiber_types = [f['type_variety'] for f in eqpt['Fiber']]
    if 'SLOPE' in fiber_types and draw(st.booleans()):
        fiber_types = ['SLOPE', 'SLOPE', 'SLOPE', 'SSMF']
    elif 'NEGD' in fiber_types and draw(st.booleans()):
        # a network built mostly from the dispersion-compensating type: accumulated dispersion becomes negative
        fiber_types = ['NEGD', 'NEGD', 'NEGD', 'SSMF']
    elements, connections = [], []
    roadm_types = ['default'] + [r['type_variety'] for r in eqpt['Roadm'] if 'type_variety' in r]
    degrees = {s: [] for s in sites}        # egress neighbour uid per site (filled below for user-visible ones)
    for i, s in enumerate(sites):
        elements.append({'uid': f'trx {s}', 'type': 'Transceiver', 'metadata': _loc(i)})
        r = {'uid': f'roadm {s}', 'type': 'Roadm', 'metadata': _loc(i)}
        rt = draw(st.sampled_from(roadm_types[:1] * 3 + roadm_types))
        if rt != 'default':
            r['type_variety'] = rt
        elements.append(r)
        connections.append({'from_node': f'trx {s}', 'to_node': f'roadm {s}'})
        connections.append({'from_node': f'roadm {s}', 'to_node': f'trx {s}'})
    meta_links = []
    for (ia, ib) in links:
        for (x, y) in ((ia, ib), (ib, ia)):
            a, b = sites[x], sites[y]
            nf = draw(st.integers(1, 3))
            chain = []
            # a short link without any amplifier: ROADM-Fused-fibre-Fused-ROADM (never the first link of the world: a
            # network without a single amplifier is outside what the spectrum code supports)
            passive = (ia, ib) != links[0] and draw(st.integers(0, 6)) == 0
            lead = 2 if passive else draw(st.integers(0, 9))
            if passive:
                nf = 1
            if lead in (0, 1):
                chain.append(draw(user_amp_strategy(f'booster {a}{b}')))
            elif lead == 2:
                # ROADM -> Fused -> fibre: auto-design inserts no booster on such a degree
                chain.append({'uid': f'lead fused {a}{b}', 'type': 'Fused', 'metadata': _loc(x),
                              'params': {'loss': draw(st.sampled_from([0, 1, 0.5]))}})
            for k in range(nf):
                length = draw(st.sampled_from(LENGTHS_KM))
                fib = {'uid': f'fiber ({a} → {b})-{k}', 'type': 'Fiber',
                       'type_variety': draw(st.sampled_from(fiber_types[:1] * 3 + fiber_types)),
                       'params': {'length': length, 'length_units': 'km',
                                  'loss_coef': draw(st.sampled_from([0.2, 0.2, 0.22, 0.25, 0.18, 0.3])),
                                  'con_in': draw(st.sampled_from([None, None, 0.5, 0.2])),
                                  'con_out': draw(st.sampled_from([None, None, 0.5, 0.3]))},
                       'metadata': _loc(x, k)}
                if draw(st.integers(0, 5)) == 0:
                    fib['params']['att_in'] = draw(st.sampled_from([0, 1, 2.5]))
                if draw(st.integers(0, 7)) == 0 and 20 <= length <= 100:
                    fib['params']['lumped_losses'] = [{'position': length / 2, 'loss': 0.5}]
                if draw(st.integers(0, 7)) == 0:
                    fib['params']['pmd_coef'] = 3.0e-15
                chain.append(fib)
                if k < nf - 1:
                    j = draw(st.integers(0, 5))
                    if j == 0:
                        chain.append({'uid': f'fused {a}{b}-{k}', 'type': 'Fused', 'metadata': _loc(x, k),
                                      'params': {'loss': draw(st.sampled_from([1, 0, 0.5, 2]))}})
                    elif j == 1:
                        chain.append(draw(user_amp_strategy(f'ila {a}{b}-{k}')))
            if passive:
                chain[-1]['params']['length'] = draw(st.sampled_from([1.0, 5.0, 20.0, 0.05]))
                chain[-1]['params'].pop('lumped_losses', None)
                chain.append({'uid': f'tail fused {a}{b}', 'type': 'Fused', 'metadata': _loc(x),
                              'params': {'loss': draw(st.sampled_from([0, 1]))}})
            elif draw(st.integers(0, 4)) == 0:
                chain.append(draw(user_amp_strategy(f'preamp {a}{b}')))
            elements.extend(chain)
            uids = [f'roadm {a}'] + [c['uid'] for c in chain] + [f'roadm {b}']
            for u, v in zip(uids, uids[1:]):
                connections.append({'from_node': u, 'to_node': v})
            meta_links.append({'from': a, 'to': b, 'first': uids[1], 'last': uids[-2],
                               'km': sum(c['params']['length'] for c in chain if c['type'] == 'Fiber')})
    # per-degree ROADM settings on user-visible degrees (the uid of the first element of the link when it is an
    # amplifier the user placed; otherwise the auto-design name of the booster)
    for ml in meta_links:
        first = next(e for e in elements if e['uid'] == ml['first'])
        if first['type'] != 'Edfa':
            continue    # a topology *file* may only name degrees that exist in it (YANG leafref): user-placed boosters
        if draw(st.integers(0, 2)) == 0:
            r = next(e for e in elements if e['uid'] == f'roadm {ml["from"]}')
            deg = first['uid']
            params = r.setdefault('params', {})
            kind = draw(st.integers(0, 2))
            if kind == 0:
                params.setdefault('per_degree_pch_out_db', {})[deg] = draw(st.sampled_from([-19, -21, -17]))
            elif kind == 1:
                params.setdefault('per_degree_psd_out_mWperGHz', {})[deg] = draw(st.sampled_from([3e-4, 4e-4]))
            else:
                params.setdefault('per_degree_psd_out_mWperSlotWidth', {})[deg] = draw(st.sampled_from([2e-4, 2.5e-4]))
    # seeded document order (S9): elements and connections are emitted in a drawn order
    if draw(st.booleans()):
        elements = draw(st.permutations(elements))
        connections = draw(st.permutations(connections))
    topo = {'network_name': 'sim', 'elements': list(elements), 'connections': list(connections)}
    return topo, {'sites': sites, 'links': meta_links}


@st.composite
def world_strategy(draw, flavour='mesh'):
    eqpt = draw(equipment_strategy(flavour))
    topo, meta = draw(topology_strategy(flavour, eqpt))
    return {'kind': 'net', 'flavour': flavour, 'eqpt': eqpt, 'topo': topo, 'sim': None, 'meta': meta}


def summary(world):
    """short description for evidence samples (full documents go to replay files only)"""
    if world.get('kind') != 'net':
        return world
    t = world['topo']
    kinds = {}
    for e in t['elements']:
        kinds[e['type']] = kinds.get(e['type'], 0) + 1
    sp, si = world['eqpt']['Span'][0], world['eqpt']['SI'][0]
    return {'sites': world['meta']['sites'], 'elements': kinds,
            'links': [f"{l['from']}->{l['to']}:{l['km']}km" for l in world['meta']['links']],
            'span': {k: sp[k] for k in ('power_mode', 'padding', 'EOL', 'max_length')},
            'si': {k: si.get(k) for k in ('f_min', 'f_max', 'spacing', 'power_dbm', 'sys_margins')},
            'sim': world.get('sim')}


# --------------------------------------------------------------------------------------------------------------
# flavours that emphasise what C17's why_tests_cant names: Raman spans, multiband groups with aliases

@st.composite
def raman_world_strategy(draw):
    """chain of 2-3 ROADM sites with a narrow SI band (so that estimate_raman_gain stays cheap); some spans are short
    RamanFiber spans with counter-propagating pumps.  The amplifier in front of a RamanFiber carries a user delta_p
    (auto-design cannot compute the power rule for a Raman span that was not estimated yet, see DESIGN N6)."""
    eq = draw(equipment_strategy('small'))
    si = eq['SI'][0]
    si['f_min'], si['f_max'] = draw(st.sampled_from([(193.0e12, 193.6e12), (192.0e12, 192.9e12), (194.0e12, 194.5e12)]))
    si['spacing'] = 50e9
    si['baud_rate'] = 32e9
    nsites = draw(st.integers(2, 3))
    sites = SITES[:nsites]
    elements, connections, meta_links = [], [], []
    for i, s in enumerate(sites):
        elements.append({'uid': f'trx {s}', 'type': 'Transceiver', 'metadata': _loc(i)})
        elements.append({'uid': f'roadm {s}', 'type': 'Roadm', 'metadata': _loc(i)})
        connections.append({'from_node': f'trx {s}', 'to_node': f'roadm {s}'})
        connections.append({'from_node': f'roadm {s}', 'to_node': f'trx {s}'})
    nraman = 0
    for i in range(1, nsites):
        for (x, y) in ((i - 1, i), (i, i - 1)):
            a, b = sites[x], sites[y]
            chain = []
            nf = draw(st.integers(1, 2))
            for k in range(nf):
                raman = draw(st.integers(0, 2)) == 0 or (nraman == 0 and (x, y, k) == (nsites - 1, nsites - 2, nf - 1))
                if raman:
                    nraman += 1
                    amp = draw(user_amp_strategy(f'amp {a}{b}-{k}', ['std_medium_gain', 'std_low_gain', '']))
                    amp['operational']['delta_p'] = draw(st.sampled_from([0, 1, -1, -2]))
                    amp['operational'].setdefault('out_voa', 0)
                    if amp['operational'].get('out_voa') is None:
                        amp['operational']['out_voa'] = 0
                    chain.append(amp)
                    chain.append({'uid': f'raman ({a} → {b})-{k}', 'type': 'RamanFiber', 'type_variety': 'SSMF',
                                  'params': {'length': draw(st.sampled_from([20.0, 30.0, 12.0, 40.0])),
                                             'length_units': 'km', 'loss_coef': 0.2, 'att_in': 0,
                                             'con_in': draw(st.sampled_from([0.5, 0.2])),
                                             'con_out': draw(st.sampled_from([0.5, 0.3]))},
                                  'operational': {'temperature': 283, 'raman_pumps': draw(st.sampled_from([
                                      [{'power': 0.2, 'frequency': 205e12, 'propagation_direction': 'counterprop'},
                                       {'power': 0.2, 'frequency': 201e12, 'propagation_direction': 'counterprop'}],
                                      [{'power': 0.1, 'frequency': 205e12, 'propagation_direction': 'counterprop'},
                                       {'power': 0.15, 'frequency': 201e12, 'propagation_direction': 'counterprop'}],
                                      [{'power': 0.25, 'frequency': 203e12, 'propagation_direction': 'counterprop'}],
                                      [],
                                      [{'power': 0.001, 'frequency': 205e12, 'propagation_direction': 'counterprop'}],
                                      [{'power': 0.15, 'frequency': 185e12, 'propagation_direction': 'counterprop'}],
                                      [{'power': 0.1, 'frequency': 204e12, 'propagation_direction': 'coprop'}]]))},
                                  'metadata': _loc(x, k)})
                else:
                    if k > 0 and draw(st.booleans()):
                        chain.append(draw(user_amp_strategy(f'amp {a}{b}-{k}')))
                    chain.append({'uid': f'fiber ({a} → {b})-{k}', 'type': 'Fiber', 'type_variety': 'SSMF',
                                  'params': {'length': draw(st.sampled_from([80.0, 50.0, 100.0, 20.0])),
                                             'length_units': 'km', 'loss_coef': 0.2, 'con_in': None, 'con_out': None},
                                  'metadata': _loc(x, k)})
            elements.extend(chain)
            uids = [f'roadm {a}'] + [c['uid'] for c in chain] + [f'roadm {b}']
            for u, v in zip(uids, uids[1:]):
                connections.append({'from_node': u, 'to_node': v})
            meta_links.append({'from': a, 'to': b, 'first': uids[1], 'last': uids[-2], 'km': None})
    if draw(st.booleans()):
        elements = draw(st.permutations(elements))
        connections = draw(st.permutations(connections))
    topo = {'network_name': 'raman', 'elements': list(elements), 'connections': list(connections)}
    return {'kind': 'net', 'flavour': 'raman', 'eqpt': eq, 'topo': topo, 'sim': None,
            'meta': {'sites': sites, 'links': meta_links}}


MB_EQPT = _load(TESTDATA / 'eqpt_config_multiband.json')


@st.composite
def multiband_world_strategy(draw):
    """chain / triangle of ROADM sites; every link direction is roadm -> amp -> fibre -> (amp|fused) -> fibre -> amp
    -> roadm with explicit Multiband_amplifier (C+L) or plain Edfa (C only) elements; the library may contain several
    multiband groups listing the same single-band amplifiers (what `other_name` aliases create)."""
    eq = deepcopy(MB_EQPT)
    ndup = draw(st.integers(0, 3))
    base = next(a for a in eq['Edfa'] if a['type_variety'] == 'std_medium_gain_multiband')
    pos = eq['Edfa'].index(base)
    for i in range(ndup):
        dup = deepcopy(base)
        dup['type_variety'] = ['std_medium_gain_multiband_new', 'mg_multiband_alias', 'a_multiband'][i]
        eq['Edfa'].insert(pos + (i % 2), dup)
    if draw(st.booleans()):
        base2 = next(a for a in eq['Edfa'] if a['type_variety'] == 'std_low_gain_multiband_bis')
        dup = deepcopy(base2)
        dup['type_variety'] = 'lg_multiband_alias'
        eq['Edfa'].append(dup)
    eq['Span'][0]['power_mode'] = draw(st.sampled_from([True, True, False]))
    eq['Span'][0]['EOL'] = draw(st.sampled_from([0, 0.5]))
    if draw(st.booleans()):
        # amplifier models whose band edges are staggered against each other (as in the shipped example library)
        for amp in eq['Edfa']:
            if amp['type_variety'] == 'std_medium_gain':
                amp['f_min'], amp['f_max'] = 191.225e12, 196.125e12
            if amp['type_variety'] == 'std_medium_gain_L':
                amp['f_min'], amp['f_max'] = 186.5e12, 190.1e12
    eq['Transceiver'].append(draw(transceiver_strategy('trx1')))
    nsites = draw(st.integers(2, 3))
    sites = SITES[:nsites]
    links = [(i - 1, i) for i in range(1, nsites)]
    if nsites == 3 and draw(st.booleans()):
        links.append((0, 2))
    elements, connections, meta_links = [], [], []
    roadms = {}
    for i, s in enumerate(sites):
        elements.append({'uid': f'trx {s}', 'type': 'Transceiver', 'metadata': _loc(i)})
        roadms[s] = {'uid': f'roadm {s}', 'type': 'Roadm', 'metadata': _loc(i)}
        elements.append(roadms[s])
        connections.append({'from_node': f'trx {s}', 'to_node': f'roadm {s}'})
        connections.append({'from_node': f'roadm {s}', 'to_node': f'trx {s}'})
    bands = [{'f_min': 191.3e12, 'f_max': 196.0e12}, {'f_min': 187.0e12, 'f_max': 190.0e12}]
    kinds = ['mb_no_design', 'mb_type_variety', 'mb_no_design', 'single', 'single_reduced', 'mb_mixed', 'mb_explicit',
             'single_L', 'single_medium']
    auto_mb = draw(st.integers(0, 5)) == 0
    if auto_mb:
        # boosters and pre-amplifiers are left to auto-design: gnpy inserts Multiband_amplifier elements itself (their
        # params start from the class-level defaults) because every OMS holds one in-line multiband amplifier and the
        # ROADMs carry two design bands
        kinds = ['mb_auto']
        for r in roadms.values():
            r['params'] = {'design_bands': [{'f_min': 186.6e12, 'f_max': 190.0e12, 'spacing': 50e9},
                                            {'f_min': 191.3e12, 'f_max': 196.1e12, 'spacing': 50e9}]}
            if draw(st.booleans()):
                r['params']['restrictions'] = {'preamp_variety_list': [],
                                               'booster_variety_list': [draw(st.sampled_from(
                                                   ['std_medium_gain_multiband', 'std_low_gain_multiband_bis']))]}
    groups = {a['type_variety']: a['amplifiers'] for a in MB_EQPT['Edfa'] if a.get('type_def') == 'multi_band'}
    mb_varieties = ['std_medium_gain_multiband', 'std_low_gain_multiband', 'std_low_gain_multiband_bis',
                    'std_low_gain_multiband_reduced', 'std_low_gain_multiband_reduced_bis', 'std_low_gain_multiband_ter']
    for (ia, ib) in links:
        kind0 = draw(st.sampled_from(kinds))
        for d, (x, y) in enumerate(((ia, ib), (ib, ia))):
            # the two directions of a link usually carry the same kind of amplifiers, but not always
            kind = kind0 if d == 0 or draw(st.integers(0, 2)) > 0 else draw(st.sampled_from(kinds))
            a, b = sites[x], sites[y]
            typ = 'Edfa' if kind.startswith('single') else 'Multiband_amplifier'
            mid_fused = draw(st.booleans())

            def amp(uid, kind=kind, typ=typ, x=x):
                el = {'uid': uid, 'type': typ, 'metadata': _loc(x)}
                if kind == 'mb_type_variety':
                    el['type_variety'] = 'std_medium_gain_multiband'
                if kind == 'mb_mixed':
                    # user-chosen multiband varieties whose bands differ inside the same outer extent
                    el['type_variety'] = draw(st.sampled_from(mb_varieties))
                if kind == 'mb_explicit':
                    # the user states the amplifier of each band (what an exported design contains)
                    tv = draw(st.sampled_from(mb_varieties))
                    el['type_variety'] = tv
                    el['amplifiers'] = [{'type_variety': sb, 'operational': {
                        'gain_target': draw(st.sampled_from([None, 15.0, 18.0])), 'delta_p': draw(st.sampled_from([0, 1, None])),
                        'tilt_target': 0, 'out_voa': draw(st.sampled_from([0, 1]))}} for sb in groups[tv]]
                if kind == 'single_reduced':
                    el['type_variety'] = 'std_low_gain_reduced_band'
                if kind == 'single_L':
                    el['type_variety'] = 'std_low_gain_L'          # an L-band only line next to C / C+L lines
                if kind == 'single_medium':
                    el['type_variety'] = 'std_medium_gain'         # with the staggered library: 191.225-196.125 THz
                return el
            if kind == 'mb_auto':
                chain = [{'uid': f'fiber ({a} → {b})-0', 'type': 'Fiber', 'type_variety': 'SSMF',
                          'params': {'length': draw(st.sampled_from([60.0, 80.0, 50.0])), 'loss_coef': 0.2,
                                     'length_units': 'km'}, 'metadata': _loc(x)},
                         {'uid': f'mid {a}{b}', 'type': 'Multiband_amplifier', 'metadata': _loc(x)},
                         {'uid': f'fiber ({a} → {b})-1', 'type': 'Fiber', 'type_variety': 'SSMF',
                          'params': {'length': draw(st.sampled_from([60.0, 40.0, 70.0])), 'loss_coef': 0.2,
                                     'length_units': 'km'}, 'metadata': _loc(x)}]
                elements.extend(chain)
                uids = [f'roadm {a}'] + [c['uid'] for c in chain] + [f'roadm {b}']
                for u, v in zip(uids, uids[1:]):
                    connections.append({'from_node': u, 'to_node': v})
                meta_links.append({'from': a, 'to': b, 'first': uids[1], 'last': uids[-2], 'km': None, 'kind': kind})
                continue
            chain = [amp(f'booster {a}{b}'),
                     {'uid': f'fiber ({a} → {b})-0', 'type': 'Fiber', 'type_variety': 'SSMF',
                      'params': {'length': draw(st.sampled_from([50.0, 80.0, 60.0])), 'loss_coef': 0.2,
                                 'length_units': 'km'}, 'metadata': _loc(x)},
                     {'uid': f'mid {a}{b}', 'type': 'Fused', 'params': {'loss': 0.0}, 'metadata': _loc(x)}
                     if mid_fused else amp(f'mid {a}{b}'),
                     {'uid': f'fiber ({a} → {b})-1', 'type': 'Fiber', 'type_variety': 'SSMF',
                      'params': {'length': draw(st.sampled_from([50.0, 40.0, 70.0])), 'loss_coef': 0.2,
                                 'length_units': 'km'}, 'metadata': _loc(x)},
                     amp(f'preamp {a}{b}')]
            elements.extend(chain)
            uids = [f'roadm {a}'] + [c['uid'] for c in chain] + [f'roadm {b}']
            for u, v in zip(uids, uids[1:]):
                connections.append({'from_node': u, 'to_node': v})
            if kind == 'mb_no_design':
                roadms[a].setdefault('params', {}).setdefault('per_degree_design_bands', {})[chain[0]['uid']] = \
                    deepcopy(bands)
            meta_links.append({'from': a, 'to': b, 'first': uids[1], 'last': uids[-2], 'km': None, 'kind': kind})
    if draw(st.booleans()):
        elements = draw(st.permutations(elements))
        connections = draw(st.permutations(connections))
    topo = {'network_name': 'mb', 'elements': list(elements), 'connections': list(connections)}
    return {'kind': 'net', 'flavour': 'multiband', 'eqpt': eq, 'topo': topo, 'sim': None,
            'meta': {'sites': sites, 'links': meta_links}}

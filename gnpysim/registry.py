"""Which engine decides which property, and the fixed example budgets per tier.

Budgets are fixed numbers (not wall-clock bound) so that evidence and verdict are a pure function of
(VERIF_SEED, tier, code)."""

COMMON_ASSUME = [
    'sampling, not enumeration: a clean batch is evidence, not proof',
    'the in-process session is the whole system: GNPy has no threads, clock, sockets or peers',
    'Hypothesis 6.168 supplies generation and shrinking only; oracles and models are in /verif/gnpysim',
]

PROPS = {
    'C14': {
        'engine': 'e2', 'module': 'gnpysim.e2_spectrum',
        'tiers': {
            'quick': {'tasks': 32, 'max_examples': 150, 'step_count': 14, 'shrink_seconds': 40, 'task_timeout': 900},
            'thorough': {'tasks': 256, 'max_examples': 600, 'step_count': 25, 'shrink_seconds': 300,
                         'task_timeout': 3400},
        },
        'components': {'real': ['gnpy.topology.spectrum_assignment (OMS, Bitmap, align_grids, aggregate_oms_bitmap, '
                                'bitmap_sum, spectrum_selection, determine_slot_numbers, compute_n_m, '
                                'pth_assign_spectrum)', 'gnpy.core.utils.order_slots/restore_order',
                                'gnpy.topology.request.PathRequest/compute_spectrum_slot_vs_bandwidth'],
                       'stubbed': ['path elements (objects carrying only oms_id) in the synthetic layer']},
        'assumptions': COMMON_ASSUME + ['guard bands are those of the common (aligned) extent, as the allocator '
                                        'applies them; completeness is judged only for single-entry free-N requests'],
    },
    'C15': {
        'engine': 'e2', 'module': 'gnpysim.e2_spectrum',
        'tiers': {
            'quick': {'tasks': 32, 'max_examples': 120, 'step_count': 12, 'shrink_seconds': 40, 'task_timeout': 900},
            'thorough': {'tasks': 256, 'max_examples': 500, 'step_count': 25, 'shrink_seconds': 300,
                         'task_timeout': 3400},
        },
        'components': {'real': ['gnpy.topology.spectrum_assignment (Bitmap.insert_left/right, align_grids, '
                                'OMS.update_spectrum/assign_spectrum, pth_assign_spectrum)'],
                       'stubbed': ['path elements (objects carrying only oms_id) in the synthetic layer']},
        'assumptions': COMMON_ASSUME,
    },
}

"""Which engine decides which property, and the fixed example budgets per tier.

Budgets are fixed numbers (not wall-clock bound) so that evidence and verdict are a pure function of
(VERIF_SEED, tier, code)."""

COMMON_ASSUME = [
    'sampling, not enumeration: a clean batch is evidence, not proof',
    'the in-process session is the whole system: GNPy has no threads, clock, sockets or peers',
    'Hypothesis 6.168 supplies generation and shrinking only; oracles and models are in /verif/gnpysim',
]

E3_COMPONENTS = {'real': ['gnpy.tools.worker_utils.planning and everything below it (requests_from_json, aggregation, '
                          'compute_path_dsjctn, compute_path_with_disjunction, propagate, propagate_and_optimize_mode, all '
                          'elements, science_utils solvers, build_oms_list, pth_assign_spectrum, ResultElement, jsontocsv)',
                          'json_io loaders (_equipment_from_json, network_from_json), auto-design (designed_network)'],
                 'stubbed': ['nothing of gnpy; failures are injected by class-level wrappers around element __call__ and '
                             'the Raman/NLI solver entry points (gnpysim/taps.py)']}
E3_ASSUME = ['worlds are small (2-5 ROADM sites, <= ~90 elements after design), single-band amplifiers',
             'a crash of a planning call is modelled by an exception raised at a drawn element crossing / solver call']

PROPS = {
    'C14': {
        'engine': 'e2', 'module': 'gnpysim.e2_spectrum',
        'tiers': {
            'quick': {'tasks': 32, 'max_examples': 150, 'step_count': 14, 'shrink_seconds': 40, 'task_timeout': 900},
            'thorough': {'tasks': 256, 'max_examples': 600, 'step_count': 25, 'shrink_seconds': 300,
                         'task_timeout': 3400},
        },
        'components': {'real': ['gnpy.topology.spectrum_assignment (OMS, Bitmap, align_grids, aggregate_oms_bitmap, '
                                'bitmap_sum, spectrum_selection, determine_slot_numbers, compute_n_m, '
                                'pth_assign_spectrum)', 'gnpy.core.utils.order_slots/restore_order',
                                'gnpy.topology.request.PathRequest/compute_spectrum_slot_vs_bandwidth'],
                       'stubbed': ['path elements (objects carrying only oms_id) in the synthetic layer']},
        'assumptions': COMMON_ASSUME + ['guard bands are those of the common (aligned) extent, as the allocator '
                                        'applies them; completeness is judged only for single-entry free-N requests'],
        # second layer: the same property judged on what the whole planning() pipeline leaves in its OMS list
        'extra': [{'engine': 'e3', 'module': 'gnpysim.e3_planning',
                   'tiers': {'quick': {'tasks': 16, 'max_examples': 10, 'step_count': 5, 'shrink_seconds': 60,
                                       'task_timeout': 1500},
                             'thorough': {'tasks': 128, 'max_examples': 50, 'step_count': 8, 'shrink_seconds': 400,
                                          'task_timeout': 7000}}}],
    },
    'C15': {
        'engine': 'e2', 'module': 'gnpysim.e2_spectrum',
        'tiers': {
            'quick': {'tasks': 32, 'max_examples': 120, 'step_count': 12, 'shrink_seconds': 40, 'task_timeout': 900},
            'thorough': {'tasks': 256, 'max_examples': 500, 'step_count': 25, 'shrink_seconds': 300,
                         'task_timeout': 3400},
        },
        'components': {'real': ['gnpy.topology.spectrum_assignment (Bitmap.insert_left/right, align_grids, '
                                'OMS.update_spectrum/assign_spectrum, pth_assign_spectrum)'],
                       'stubbed': ['path elements (objects carrying only oms_id) in the synthetic layer']},
        'assumptions': COMMON_ASSUME,
    },
    'C16': {
        'engine': 'e3', 'module': 'gnpysim.e3_planning',
        'tiers': {
            'quick': {'tasks': 32, 'max_examples': 16, 'step_count': 6, 'shrink_seconds': 60, 'task_timeout': 1500},
            'thorough': {'tasks': 256, 'max_examples': 60, 'step_count': 10, 'shrink_seconds': 400,
                         'task_timeout': 7000},
        },
        'components': E3_COMPONENTS, 'assumptions': COMMON_ASSUME + E3_ASSUME,
    },
    'C13': {
        'engine': 'e3', 'module': 'gnpysim.e3_planning',
        'tiers': {
            'quick': {'tasks': 32, 'max_examples': 20, 'step_count': 5, 'shrink_seconds': 60, 'task_timeout': 1500},
            'thorough': {'tasks': 256, 'max_examples': 60, 'step_count': 8, 'shrink_seconds': 400,
                         'task_timeout': 7000},
        },
        'components': E3_COMPONENTS, 'assumptions': COMMON_ASSUME + E3_ASSUME + [
            'physical line figures (raw GSNR, CD, PMD, PDL at the receiver) come from a real propagate() call on a '
            'fresh copy; transmitter/ROADM OSNR, penalties, minimum, rounding and threshold are recomputed independently',
            'cases with |metric - threshold| < 0.011 dB and ties of equal (baud rate, bit rate) are not judged'],
    },
    'C19': {
        'engine': 'e3', 'module': 'gnpysim.e3_planning',
        'tiers': {
            'quick': {'tasks': 32, 'max_examples': 18, 'step_count': 6, 'shrink_seconds': 60, 'task_timeout': 1500},
            'thorough': {'tasks': 256, 'max_examples': 70, 'step_count': 10, 'shrink_seconds': 400,
                         'task_timeout': 7000},
        },
        'components': E3_COMPONENTS, 'assumptions': COMMON_ASSUME + E3_ASSUME,
    },
    'C17': {
        'engine': 'e4', 'module': 'gnpysim.e4_design',
        'tiers': {
            'quick': {'tasks': 32, 'max_examples': 30, 'step_count': 8, 'shrink_seconds': 60, 'task_timeout': 1500},
            'thorough': {'tasks': 256, 'max_examples': 70, 'step_count': 12, 'shrink_seconds': 400,
                         'task_timeout': 7000},
        },
        'components': {'real': ['json_io loaders, network_from_json, network_to_json, save_network / load_network incl. '
                                'YANG conversion', 'auto-design: designed_network, add_missing_elements_in_network, '
                                'build_network, estimate_raman_gain, every element to_json', 'propagate (probe)'],
                       'stubbed': ['file system: in-memory SimDisk injected as gnpy.tools.json_io.open',
                                   'process restart in in-process mode (objects dropped, SimParams reset to import-time '
                                   'values); the child-interpreter operation is a literal new process']},
        'assumptions': COMMON_ASSUME + ['numeric tolerances of the fixpoint are the export\'s own rounding '
                                        '(gain_target 2e-6, tilt_target 2e-5, length / loss_coef 2e-6, others 1e-9)',
                                        'a design that raises midway is not judged for the SimParams clause (note N1)'],
    },
    'C01': {
        'engine': 'e1', 'module': 'gnpysim.e1_si',
        'tiers': {
            'quick': {'tasks': 32, 'max_examples': 120, 'step_count': 20, 'shrink_seconds': 60, 'task_timeout': 1500},
            'thorough': {'tasks': 256, 'max_examples': 600, 'step_count': 40, 'shrink_seconds': 400,
                         'task_timeout': 7000},
        },
        'components': {'real': ['gnpy.core.info.SpectralInformation and its constructors / select / demux / mux',
                                'all elements, RamanSolver / NliSolver, propagate, auto-design (element layer)'],
                       'stubbed': ['nothing']},
        'assumptions': COMMON_ASSUME + ['no fault kind exists for the value-object layer; the element layer injects one: a propagation aborted inside '
                                        'an element at a drawn crossing',
                                        'NLI additions are bounded by 0.3 of the channel power and launch powers by '
                                        '+10 dBm, as the property states'],
    },
}

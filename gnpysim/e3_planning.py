"""Engine E3 `planning`: a long-lived designed network receives a history of planning batches, some of which fail.

Real code: the whole planning pipeline (gnpy.tools.worker_utils.planning -> requests_from_json, aggregation,
compute_path_dsjctn, compute_path_with_disjunction, propagate / propagate_and_optimize_mode, every element,
pth_assign_spectrum, ResultElement, jsontocsv), loaders and auto-design.
Stubbed: nothing of gnpy; failures are injected through the element/solver taps (gnpysim.taps).

Served properties:
  C16  single-copy reference: every request (with its disjunction group) recomputed alone on a fresh state
  C13  verdict / selected mode re-derived from fresh-state propagations per mode + independent receiver arithmetic
  C19  exactly-once / conservation checks of responses and CSV over the recorded request history
"""
import csv
import io
import math
from copy import deepcopy

import numpy as np
from hypothesis import strategies as st
from hypothesis.stateful import RuleBasedStateMachine, rule, initialize, precondition

from gnpy.core.exceptions import ServiceError, DisjunctionError, EquipmentConfigError, ConfigurationError, \
    SpectrumError, NetworkTopologyError, ParametersError
from gnpy.core.elements import Roadm, Transceiver, Edfa, Multiband_amplifier
from gnpy.tools.json_io import requests_from_json, results_to_json
from gnpy.tools.worker_utils import planning
from gnpy.topology.request import propagate, jsontocsv, BLOCKING_NOPATH, BLOCKING_NOMODE, BLOCKING_NOSPECTRUM

from . import gn, taps, worlds
from .core import SessionBase, Violation, HarnessError, session_started, session_closed, jdigest
from .taps import TAP, InjectedFault

PLAN_ERRORS = (ServiceError, DisjunctionError, EquipmentConfigError, ConfigurationError, SpectrumError,
               NetworkTopologyError, ParametersError, ValueError, InjectedFault, KeyError, IndexError, TypeError,
               AttributeError, ZeroDivisionError, StopIteration)
RX_FIELDS = ('snr', 'snr_01nm', 'osnr_ase', 'osnr_ase_01nm', 'osnr_nli', 'raw_snr_01nm', 'raw_osnr_ase_01nm',
             'chromatic_dispersion', 'pmd', 'pdl', 'latency')
AMP_RUNTIME = ('effective_gain', 'delta_p', '_delta_p', 'out_voa', 'in_voa', 'tilt_target', 'target_pch_out_dbm')
JUDGE_BAND = 0.011


def arr(x):
    return None if x is None else np.array(x, dtype=float)


def rx_figures(trx):
    """what a receiver (last element of a propagated path) recorded"""
    if trx is None or getattr(trx, 'snr', None) is None:
        return None
    out = {f: arr(getattr(trx, f, None)) for f in RX_FIELDS}
    out['penalties'] = {k: arr(v) for k, v in trx.penalties.items()}
    out['total_penalty'] = arr(np.broadcast_to(trx.total_penalty, out['snr'].shape))
    out['uid'] = trx.uid
    return out


def close(a, b, tol):
    if a is None or b is None:
        return a is None and b is None
    a, b = np.asarray(a, dtype=float), np.asarray(b, dtype=float)
    if a.shape != b.shape:
        return False
    both_inf = np.isinf(a) & np.isinf(b) & (np.sign(a) == np.sign(b))
    both_nan = np.isnan(a) & np.isnan(b)
    with np.errstate(invalid='ignore'):
        return bool(np.all(both_inf | both_nan | (np.abs(a - b) <= tol)))


def maxdiff(a, b):
    try:
        with np.errstate(invalid='ignore'):
            d = np.abs(np.asarray(a, dtype=float) - np.asarray(b, dtype=float))
        return float(np.nanmax(d))
    except Exception:
        return float('nan')


def metric_dict(metrics):
    return {m['metric-type']: m['accumulative-value'] for m in metrics}


def amp_runtime(network):
    out = {}
    for n in network.nodes():
        if isinstance(n, Edfa):
            out[n.uid] = {a: getattr(n, a, None) for a in AMP_RUNTIME}
        elif isinstance(n, Multiband_amplifier):
            for band, amp in n.amplifiers.items():
                out[f'{n.uid}/{band}'] = {a: getattr(amp, a, None) for a in AMP_RUNTIME}
    return out


def canon(obj, depth=0):
    """canonical JSON-able dump of an equipment library object tree"""
    if depth > 12:
        return '...'
    if isinstance(obj, dict):
        return {str(k): canon(v, depth + 1) for k, v in sorted(obj.items(), key=lambda kv: str(kv[0]))}
    if isinstance(obj, (list, tuple)):
        return [canon(v, depth + 1) for v in obj]
    if isinstance(obj, np.ndarray):
        return [canon(v, depth + 1) for v in obj.tolist()]
    if isinstance(obj, (str, int, float, bool)) or obj is None:
        return obj
    if isinstance(obj, (np.floating, np.integer)):
        return obj.item()
    if hasattr(obj, '__dict__'):
        return {'__class__': type(obj).__name__, **canon(vars(obj), depth + 1)}
    return str(obj)


def strip_none(x):
    """the documented lazily-filled impairment defaults are `None` entries added to impairment dicts"""
    if isinstance(x, dict):
        return {k: strip_none(v) for k, v in x.items() if v is not None}
    if isinstance(x, list):
        return [strip_none(v) for v in x]
    return x


def my_interp_penalty(value, table):
    """own piecewise-linear interpolation, +inf outside the table (independent of numpy.interp usage in gnpy)"""
    xs, ys = table['up_to_boundary'], table['penalty_value']
    out = np.empty(len(value))
    for i, v in enumerate(value):
        if v < xs[0] or v > xs[-1] or math.isnan(v):
            out[i] = math.inf
            continue
        for j in range(len(xs) - 1):
            if xs[j] <= v <= xs[j + 1]:
                if xs[j + 1] == xs[j]:
                    out[i] = ys[j]
                else:
                    out[i] = ys[j] + (ys[j + 1] - ys[j]) * (v - xs[j]) / (xs[j + 1] - xs[j])
                break
        else:
            out[i] = ys[-1]
    return out


def doc_penalties(mode_doc):
    """penalty tables as the *document* states them (same normalisation rule the docs describe: a 0/0 lower
    boundary is implied when all given impairment values are positive)"""
    out = {}
    for imp in ('chromatic_dispersion', 'pmd', 'pdl'):
        pts = [(p[imp], p['penalty_value']) for p in mode_doc.get('penalties', []) if imp in p]
        if not pts:
            continue
        if all(x > 0 for x, _ in pts):
            pts.insert(0, (0, 0))
        pts.sort(key=lambda t: t[0])
        out[imp] = {'up_to_boundary': [p[0] for p in pts], 'penalty_value': [p[1] for p in pts]}
    return out


class E3Session(SessionBase):
    ENGINE = 'e3'

    def __init__(self, world, props, known=None):
        super().__init__(world, props, known)
        self.world = deepcopy(world)     # edit_mode changes documents; the replay file keeps the initial ones
        self.sim_doc = None
        self.ref_cache = {}
        self.plans = 0
        self.last_cd = []
        self.last_sim = []
        self.sim_network = None
        self.simulations = 0
        self.failed_plans = 0
        self.plan_kinds = []

    def world_summary(self):
        return worlds.summary(self.world)

    # ---------------------------------------------------------------------------------------------------------
    def setup(self):
        taps.install()
        TAP.reset()
        gn.reset_process_globals()
        if self.world.get('sim'):
            gn.set_sim_params(self.world['sim'])
            self.sim_doc = self.world['sim']
        try:
            self.equipment, self.network, _ = gn.fresh_designed(self.world)
        except gn.REJECT as e:
            self.discarded = f'world-rejected:{type(e).__name__}'
            return
        self.snap_net = gn.export(self.network)
        self.snap_amp = amp_runtime(self.network)
        self.snap_eq = strip_none(canon(self.equipment))
        self.snap_sim = gn.sim_params_snapshot()

    def _fresh_designed(self):
        """a fresh copy of the session's starting state: documents loaded and auto-designed under the simulation
        parameters that were in force when the session's own network was designed (auto-design legitimately depends on
        them), then the parameters the user has set since are put back"""
        gn.reset_process_globals()
        if self.world.get('sim'):
            gn.set_sim_params(self.world['sim'])
        try:
            return gn.fresh_designed(self.world)
        finally:
            gn.reset_process_globals()
            if self.sim_doc is not None:
                gn.set_sim_params(self.sim_doc)

    # ---------------------------------------------------------------------------------------------------------
    # running the real pipeline and flattening what it returns
    def _run_planning(self, network, equipment, data, fault=None):
        TAP.arm(fault_at=(fault or {}).get('element_event'), solver_fault_at=(fault or {}).get('solver_call'))
        try:
            oms_list, ppths, rppths, rqs, dsjn, result = planning(network, equipment, deepcopy(data))
        finally:
            events, fired = TAP.events, TAP.fired
            TAP.reset()
        self.st.element_events += events
        snap = getattr(self, 'snap_amp', {})
        for pth in list(ppths) + list(rppths):
            if any(isinstance(el, Edfa) and el.uid in snap and snap[el.uid]['effective_gain'] is not None
                   and el.effective_gain < snap[el.uid]['effective_gain'] - 1e-9 for el in pth):
                self.st.probes['request_clamped_an_amplifier'] += 1
        items = []
        for rq, pth, rpth, res in zip(rqs, ppths, rppths, result):
            it = {'rid': rq.request_id, 'ids': rq.request_id.split(' | '), 'bidir': rq.bidir,
                  'route': [e.uid for e in pth], 'rroute': [e.uid for e in rpth],
                  'tsp': rq.tsp, 'mode': rq.tsp_mode, 'blocking': getattr(rq, 'blocking_reason', None),
                  'N': getattr(rq, 'N', None), 'M': getattr(rq, 'M', None),
                  'rx': rx_figures(pth[-1]) if pth else None, 'rrx': rx_figures(rpth[-1]) if rpth else None,
                  'rq': rq, 'path_bandwidth': rq.path_bandwidth, 'power': rq.power}
            try:
                it['resp'] = res.json
                it['resp_error'] = None
            except Exception as e:      # noqa: the response itself is an observable
                it['resp'] = None
                it['resp_error'] = repr(e)
            items.append(it)
        return {'items': items, 'result': result, 'fired': fired, 'oms_list': oms_list}

    def _unchanged_checks(self, when):
        """C16: computing requests (successfully or not) leaves the designed network, the library and the process-wide
        simulation parameters unchanged"""
        if 'C16' not in self.props:
            return
        net = gn.export(self.network)
        if net != self.snap_net:
            diff = [(a.get('uid'), a, b) for a, b in zip(self.snap_net['elements'], net['elements']) if a != b][:2]
            raise Violation('C16', 'network-export-changed-by-planning', f'{when}: {diff}')
        amp = amp_runtime(self.network)
        if amp != self.snap_amp:
            diff = [(k, self.snap_amp[k], amp.get(k)) for k in self.snap_amp if self.snap_amp[k] != amp.get(k)][:2]
            raise Violation('C16', 'amplifier-settings-changed-by-planning', f'{when}: {diff}')
        sim = gn.sim_params_snapshot()
        if sim != self.snap_sim:
            raise Violation('C16', 'sim-params-changed-by-planning', f'{when}: {self.snap_sim} -> {sim}')
        eq = strip_none(canon(self.equipment))
        if eq != self.snap_eq:
            where = _first_diff(self.snap_eq, eq)
            raise Violation('C16', 'equipment-library-changed-by-planning', f'{when}: {where}')

    # ---------------------------------------------------------------------------------------------------------
    # single-copy reference (C16): the request with its disjunction group, alone, on a fresh state
    def _reference(self, data, group_ids):
        reqs = [r for r in data['path-request'] if str(r['request-id']) in group_ids]
        sync = [s for s in data.get('synchronization', [])
                if set(map(str, s['svec']['request-id-number'])) <= set(group_ids)]
        doc = {'path-request': reqs}
        if sync:
            doc['synchronization'] = sync
        key = jdigest([doc, self.sim_doc])
        if key in self.ref_cache:
            return self.ref_cache[key]
        eq, net, _ = self._fresh_designed()
        try:
            out = self._run_planning(net, eq, doc)
            ref = {'ok': True, 'items': out['items'], 'eq': eq, 'net': net}
        except PLAN_ERRORS as e:
            ref = {'ok': False, 'error': e}
        self.ref_cache[key] = ref
        return ref

    @staticmethod
    def _groups(data):
        """connected components of requests through synchronization vectors and aggregation candidates"""
        ids = [str(r['request-id']) for r in data['path-request']]
        parent = {i: i for i in ids}

        def find(x):
            while parent[x] != x:
                x = parent[x]
            return x
        for s in data.get('synchronization', []):
            members = [str(m) for m in s['svec']['request-id-number'] if str(m) in parent]
            for m in members[1:]:
                parent[find(m)] = find(members[0])
        comp = {}
        for i in ids:
            comp.setdefault(find(i), []).append(i)
        return {i: comp[find(i)] for i in ids}

    def _compare_c16(self, data, out):
        groups = self._groups(data)
        for it in out['items']:
            # an aggregate is compared with its first member computed alone (+ that member's group)
            first = it['ids'][0]
            ref = self._reference(data, groups[first])
            if not ref['ok']:
                raise Violation('C16', 'request-fails-alone-but-not-in-batch',
                                f'request {first}: alone -> {ref["error"]!r}; in batch -> {it["blocking"] or "served"}')
            rit = next((r for r in ref['items'] if first in r['ids']), None)
            if rit is None:
                raise HarnessError(f'reference lost request {first}')
            self._same_result(it, rit, f'request {it["rid"]}')

    def _same_result(self, it, rit, who):
        if it['route'] != rit['route']:
            raise Violation('C16', 'route-depends-on-batch', f'{who}: batch {it["route"][:6]}.. alone '
                            f'{rit["route"][:6]}..')
        if it['tsp'] != rit['tsp'] or it['mode'] != rit['mode']:
            raise Violation('C16', 'mode-depends-on-batch', f'{who}: batch {it["tsp"]}/{it["mode"]} alone '
                            f'{rit["tsp"]}/{rit["mode"]}')
        b, rb = it['blocking'], rit['blocking']
        nb = None if b in BLOCKING_NOSPECTRUM else b
        nrb = None if rb in BLOCKING_NOSPECTRUM else rb
        if nb != nrb:
            raise Violation('C16', 'verdict-depends-on-batch', f'{who}: batch {b} alone {rb}')
        for side in ('rx', 'rrx'):
            a, r = it[side], rit[side]
            if (a is None) != (r is None):
                raise Violation('C16', 'receiver-presence-depends-on-batch', f'{who} {side}: batch '
                                f'{"none" if a is None else "present"} alone {"none" if r is None else "present"}')
            if a is None:
                continue
            for f in RX_FIELDS + ('total_penalty',):
                if not close(a[f], r[f], 1e-9):
                    raise Violation('C16', 'receiver-figures-depend-on-batch',
                                    f'{who} {side}.{f}: max |batch-alone| = {maxdiff(a[f], r[f]):.3e} dB')
        if it['resp'] is not None and rit['resp'] is not None:
            pa = (it['resp'].get('no-path') or it['resp']).get('path-properties')
            pr = (rit['resp'].get('no-path') or rit['resp']).get('path-properties')
            if (pa is None) != (pr is None):
                raise Violation('C16', 'response-shape-depends-on-batch', f'{who}')
            if pa is not None:
                for key in ('path-metric', 'z-a-path-metric'):
                    ma, mr = metric_dict(pa.get(key, [])), metric_dict(pr.get(key, []))
                    ma.pop('path_bandwidth', None)
                    mr.pop('path_bandwidth', None)
                    d = {k: (ma.get(k), mr.get(k)) for k in sorted(set(ma) | set(mr)) if not _same_value(ma.get(k), mr.get(k))}
                    if d:
                        raise Violation('C16', 'reported-metrics-depend-on-batch', f'{who} {key}: {d}')

    # ---------------------------------------------------------------------------------------------------------
    # C13: verdict re-derived from fresh-state propagation per mode + own receiver arithmetic
    def _roadm_osnr_from_docs(self, route_uids):
        """OSNR contribution (0.1 nm, dB) of every crossed ROADM, read from the generated documents"""
        lib = {r.get('type_variety', 'default'): r for r in self.world['eqpt']['Roadm']}
        topo = {e['uid']: e for e in self.world['topo']['elements']}
        roadms = [u for u in route_uids if topo.get(u, {}).get('type') == 'Roadm']
        out = []
        for k, u in enumerate(roadms):
            el = topo[u]
            entry = lib[el.get('type_variety', 'default')]
            ptype = 'add' if k == 0 else 'drop' if k == len(roadms) - 1 else 'express'
            val = None
            profiles = entry.get('roadm-path-impairments', [])
            key = f'roadm-{ptype}-path'
            prof = next((p for p in profiles if key in p), None)
            if prof is not None:
                val = [(b['frequency-range']['lower-frequency'], b['frequency-range']['upper-frequency'],
                        b.get('roadm-osnr')) for b in prof[key]]
            elif ptype in ('add', 'drop'):
                add_drop = el.get('params', {}).get('add_drop_osnr', entry.get('add_drop_osnr', 100))
                val = [(None, None, add_drop + 10 * math.log10(2))]
            out.append(val)
        return out

    def _fresh_mode_figures(self, eq_f, net_f, it, mode, direction):
        """propagate one candidate mode alone on a fresh copy of the route; returns per-channel figures"""
        uids = it['route'] if direction == 'fwd' else it['rroute']
        nodes = {n.uid: n for n in net_f.nodes()}
        path = deepcopy([nodes[u] for u in uids])
        rq = deepcopy(it['rq'])
        for a in ('blocking_reason',):
            if hasattr(rq, a):
                delattr(rq, a)
        rq.baud_rate = mode['baud_rate']
        rq.tsp_mode = rq.format = mode['format']
        rq.OSNR = mode['OSNR']
        rq.tx_osnr = mode['tx_osnr']
        rq.bit_rate = mode['bit_rate']
        rq.penalties = {}
        rq.offset_db = mode.get('equalization_offset_db', 0)
        if rq.roll_off is None:
            rq.roll_off = eq_f['SI']['default'].roll_off
        TAP.reset()
        propagate(path, rq, eq_f)
        rx = path[-1]
        raw = np.array(rx.raw_snr_01nm, dtype=float)
        inv = np.zeros_like(raw)
        if mode['tx_osnr'] is not None:
            inv += 10 ** (-mode['tx_osnr'] / 10)
        ch_freq = _channel_frequencies(rq, eq_f, path)
        for val in self._roadm_osnr_from_docs(uids):
            if val is None:
                continue
            per_ch = np.full(raw.shape, np.nan)
            for lo, hi, osnr in val:
                sel = np.isnan(per_ch) if lo is None else (np.isnan(per_ch) & (ch_freq >= lo) & (ch_freq <= hi))
                if osnr is not None:
                    per_ch[sel] = osnr
            if np.all(np.isnan(per_ch)):
                continue
            if np.any(np.isnan(per_ch)):
                return None      # partially defined profile: not judged
            inv += 10 ** (-per_ch / 10)
        gsnr = -10 * np.log10(10 ** (-raw / 10) + inv)
        pens = doc_penalties(mode['_doc'])
        imp = {'chromatic_dispersion': np.array(rx.chromatic_dispersion, dtype=float),
               'pmd': np.array(rx.pmd, dtype=float), 'pdl': np.array(rx.pdl, dtype=float)}
        total = np.zeros_like(raw)
        for k, table in pens.items():
            total = total + my_interp_penalty(imp[k], table)
        with np.errstate(invalid='ignore'):
            metric = round(float(np.min(gsnr - total)), 2)
        if math.isnan(metric):
            # the line figures themselves are undefined (NaN out of the physics): no verdict can be derived
            self.st.probes['c13_nan_figures_not_judged'] += 1
            return None
        return {'gsnr_01nm': gsnr, 'total_penalty': total, 'metric': metric}

    def _judge_c13(self, data, out):
        docs = {}
        for t in self.world['eqpt']['Transceiver']:
            for name in [t['type_variety']] + t.get('other_name', []):
                docs[name] = t
        margin = self.world['eqpt']['SI'][0].get('sys_margins', 0)
        eq_f = net_f = None
        reqdocs = {str(r['request-id']): r for r in data['path-request']}
        for it in out['items']:
            if not it['route'] or it['tsp'] not in docs:
                continue
            rdoc = reqdocs[it['ids'][0]]['path-constraints']['te-bandwidth']
            if eq_f is None:
                eq_f, net_f, _ = self._fresh_designed()
            tdoc = docs[it['tsp']]
            lib_modes = {m['format']: m for m in eq_f['Transceiver'][it['tsp']].mode}
            all_modes = []
            for md in tdoc['mode']:
                for name in [md['format']] + md.get('other_name', []):
                    m = dict(lib_modes[name])
                    m['_doc'] = md
                    all_modes.append(m)
            spacing = rdoc['spacing']
            forced = rdoc.get('trx_mode')
            thr = lambda m: m['OSNR'] + margin      # noqa: E731
            cache = {}

            def figs(m, direction):
                key = (m['format'], direction)
                if key not in cache:
                    cache[key] = self._fresh_mode_figures(eq_f, net_f, it, m, direction)
                return cache[key]
            who = f'request {it["rid"]}'
            near = False
            if forced is not None:
                m = next(x for x in all_modes if x['format'] == forced)
                f = figs(m, 'fwd')
                if f is None:
                    continue
                self.st.probes['c13_fixed_mode_judged'] += 1
                exp = None if f['metric'] >= thr(m) else 'MODE_NOT_FEASIBLE'
                near = abs(f['metric'] - thr(m)) < JUDGE_BAND
                chosen = m
            else:
                cands = [m for m in all_modes if float(m['min_spacing']) <= spacing]
                if not cands:
                    if it['blocking'] != 'NO_FEASIBLE_BAUDRATE_WITH_SPACING':
                        raise Violation('C13', 'no-mode-fits-spacing-but-not-blocked', f'{who}: {it["blocking"]}')
                    continue
                feas = []
                for m in cands:
                    f = figs(m, 'fwd')
                    if f is None:
                        feas = None
                        break
                    if abs(f['metric'] - thr(m)) < JUDGE_BAND:
                        near = True
                    if f['metric'] > thr(m):
                        feas.append(m)
                if feas is None:
                    continue
                self.st.probes['c13_auto_mode_judged'] += 1
                if len(cands) > 1:
                    self.st.probes['c13_auto_mode_multi_candidates'] += 1
                if feas and len(feas) < len(cands):
                    self.st.probes['c13_some_modes_rejected_one_accepted'] += 1
                if feas:
                    best = max((m['baud_rate'], m['bit_rate']) for m in feas)
                    chosen_set = [m for m in feas if (m['baud_rate'], m['bit_rate']) == best]
                    exp = None
                else:
                    chosen_set = []
                    exp = 'NO_FEASIBLE_MODE'
                chosen = next((m for m in all_modes if m['format'] == it['mode']), None)
                if not near and not it['blocking'] in BLOCKING_NOSPECTRUM + ['MODE_NOT_FEASIBLE'] \
                        and exp != it['blocking']:
                    raise Violation('C13', 'auto-mode-verdict-wrong', f'{who}: reported {it["blocking"]}, fresh-state '
                                    f'oracle {exp}; metrics { {m["format"]: (figs(m, "fwd")["metric"], thr(m)) for m in cands} }')
                if not near and exp is None and chosen is not None and chosen['format'] not in \
                        [m['format'] for m in chosen_set]:
                    same_br = [m for m in feas if m['baud_rate'] == chosen['baud_rate']]
                    sig = 'auto-mode-not-highest-baudrate-then-bitrate'
                    if chosen in feas and chosen['baud_rate'] == best[0] and same_br and \
                            chosen.get('equalization_offset_db', 0) > max(
                                m.get('equalization_offset_db', 0) for m in chosen_set):
                        sig = 'auto-mode-prefers-higher-offset-over-higher-bitrate'
                    if not self.known.is_open('C13', sig):
                        raise Violation('C13', sig, f'{who}: selected {chosen["format"]} '
                                        f'({chosen["baud_rate"]}, {chosen["bit_rate"]}); feasible '
                                        f'{[(m["format"], m["baud_rate"], m["bit_rate"], m.get("equalization_offset_db", 0)) for m in feas]}',
                                        signature=sig)
                if chosen is None or exp is not None:
                    # figures of a blocked automatic request belong to the last explored mode: not judged here
                    if chosen is None or it['blocking'] != 'NO_FEASIBLE_MODE':
                        continue
            # (a) the figures reported for the selected / forced mode equal a fresh computation of that very mode
            f = figs(chosen, 'fwd')
            if f is not None and it['rx'] is not None:
                if not close(it['rx']['snr_01nm'], f['gsnr_01nm'], 1e-6) or \
                        not close(it['rx']['total_penalty'], f['total_penalty'], 1e-6):
                    d = max(maxdiff(it['rx']['snr_01nm'], f['gsnr_01nm']),
                            maxdiff(it['rx']['total_penalty'], f['total_penalty']))
                    sig = 'receiver-figures-differ-from-fresh-computation'
                    if forced is None:
                        sig += ':auto-mode'
                    if not self.known.is_open('C13', sig):
                        raise Violation('C13', sig, f'{who} mode {chosen["format"]}: |reported - fresh| up to {d:.4f} dB '
                                        f'(min GSNR reported {float(np.min(it["rx"]["snr_01nm"])):.2f}, fresh '
                                        f'{float(np.min(f["gsnr_01nm"])):.2f})', signature=sig)
                    continue
            if forced is None and exp is not None:
                continue
            # (b) fixed-mode verdict, forward then reverse direction
            if forced is not None and not near:
                got = it['blocking']
                if exp is not None and got != exp:
                    raise Violation('C13', 'infeasible-fixed-mode-accepted', f'{who}: metric {f["metric"]} < '
                                    f'{thr(chosen)} but reported {got}')
                if exp is None and got in BLOCKING_NOMODE and not it['bidir']:
                    raise Violation('C13', 'feasible-fixed-mode-rejected', f'{who}: metric {f["metric"]} >= '
                                    f'{thr(chosen)} but reported {got}')
            if it['bidir'] and it['rroute'] and exp is None and not near:
                fr = figs(chosen, 'rev')
                if fr is None or abs(fr['metric'] - thr(chosen)) < JUDGE_BAND:
                    continue
                self.st.probes['c13_reverse_direction_judged'] += 1
                rexp = None if fr['metric'] >= thr(chosen) else 'MODE_NOT_FEASIBLE'
                got = it['blocking'] if it['blocking'] not in BLOCKING_NOSPECTRUM else None
                if rexp != got:
                    raise Violation('C13', 'bidirectional-verdict-wrong', f'{who}: reverse metric {fr["metric"]} vs '
                                    f'{thr(chosen)}: expected {rexp}, reported {it["blocking"]}')
                if it['rrx'] is not None and not close(it['rrx']['snr_01nm'], fr['gsnr_01nm'], 1e-6):
                    raise Violation('C13', 'reverse-receiver-figures-differ-from-fresh-computation',
                                    f'{who}: up to {maxdiff(it["rrx"]["snr_01nm"], fr["gsnr_01nm"]):.4f} dB')

    # ---------------------------------------------------------------------------------------------------------
    # C14 on the whole planning flow: what planning() leaves in the OMS list is exactly the union of the accepted
    # assignments, on every OMS of each route in both directions, without overlap, inside the usable slots
    def _judge_c14(self, data, out):
        from gnpy.topology.spectrum_assignment import BitmapValue
        oms_list = out['oms_list']
        fresh = None
        uid2oms = {}
        for oms in oms_list:
            for uid in oms.el_id_list[1:-1]:
                uid2oms[uid] = oms.oms_id
        expected = {oms.oms_id: {} for oms in oms_list}      # oms -> slot -> request id
        services = {oms.oms_id: [] for oms in oms_list}
        for it in out['items']:
            if it['blocking'] is not None:
                if it['N'] is not None or it['M'] is not None:
                    raise Violation('C14', 'blocked-request-keeps-labels', f'request {it["rid"]}: N={it["N"]} M={it["M"]}')
                continue
            ns, ms = it['N'], it['M']
            if not isinstance(ns, list) or not isinstance(ms, list) or not ns or len(ns) != len(ms) or \
                    not all(isinstance(x, int) for x in ns + ms) or not all(m > 0 for m in ms):
                raise Violation('C14', 'accepted-request-without-valid-labels', f'request {it["rid"]}: N={ns} M={ms}')
            fwd = sorted({uid2oms[u] for u in it['route'] if u in uid2oms})
            both = set(fwd)
            for o in fwd:
                r = oms_list[o].reversed_oms
                if r is not None:
                    both.add(r.oms_id)
            rq = it['rq']
            need = math.ceil(rq.spacing / 12.5e9) * math.ceil(rq.path_bandwidth / rq.bit_rate)
            if sum(ms) < need:
                raise Violation('C14', 'fewer-slots-than-bandwidth-needs', f'request {it["rid"]}: M={ms} need {need}')
            for o in sorted(both):
                services[o].append(it['rid'])
                for n, m in zip(ns, ms):
                    for x in range(n - m, n + m):
                        if x in expected[o]:
                            raise Violation('C14', 'double-booked-slot', f'oms {o} slot {x}: requests '
                                            f'{expected[o][x]} and {it["rid"]}')
                        expected[o][x] = it['rid']
        if fresh is None:
            eq_f, net_f, _ = self._fresh_designed()
            from gnpy.topology.spectrum_assignment import build_oms_list
            fresh = build_oms_list(net_f, eq_f)
        for oms, f_oms in zip(oms_list, fresh):
            bm, fb = oms.spectrum_bitmap, f_oms.spectrum_bitmap
            if bm.freq_index != fb.freq_index:
                raise HarnessError('fresh OMS list differs in extent')
            for n, now, before in zip(bm.freq_index, bm.bitmap, fb.bitmap):
                want = BitmapValue.OCCUPIED if n in expected[oms.oms_id] else before
                if now is not want:
                    who = expected[oms.oms_id].get(n)
                    kind = 'assignment-on-unusable-slot' if who is not None and before is not BitmapValue.FREE else \
                        'occupancy-not-union-of-accepted'
                    if who is not None and before is BitmapValue.FREE:
                        kind = 'assignment-missing-on-an-oms-of-the-path'
                    raise Violation('C14', kind, f'oms {oms.oms_id} ({oms.el_id_list[0]} -> {oms.el_id_list[-1]}) slot {n}: '
                                    f'map {now.name}, expected {want.name} (request {who})')
                if n in expected[oms.oms_id] and not (bm.freq_index_min <= n <= bm.freq_index_max):
                    raise Violation('C14', 'assignment-outside-guard-bands', f'oms {oms.oms_id} slot {n}')
            if sorted(oms.service_list) != sorted(services[oms.oms_id]):
                raise Violation('C14', 'service-record-not-union-of-accepted',
                                f'oms {oms.oms_id}: {oms.service_list} vs {services[oms.oms_id]}')

    # ---------------------------------------------------------------------------------------------------------
    # C19: the response states exactly what was computed (history checks per plan)
    def _judge_c19(self, data, out):
        submitted = [str(r['request-id']) for r in data['path-request']]
        reqdocs = {str(r['request-id']): r for r in data['path-request']}
        seen = []
        for it in out['items']:
            who = f'response {it["rid"]}'
            if it['resp_error'] is not None:
                raise Violation('C19', 'response-cannot-be-built', f'{who}: {it["resp_error"]}')
            resp = it['resp']
            if str(resp.get('response-id')) != it['rid']:
                raise Violation('C19', 'response-id-differs-from-request-id', f'{who}: {resp.get("response-id")}')
            seen.extend(str(resp['response-id']).split(' | '))
            if len(it['ids']) > 1:
                self.st.probes['aggregated_request'] += 1
                docs_ = []
                for i in it['ids']:
                    # compare what the requests *mean* (defaults resolved by the real loader), not their spelling
                    r_ = requests_from_json({'path-request': [deepcopy(reqdocs[i])]}, self.equipment)[0]
                    from gnpy.topology.request import correct_json_route_list
                    correct_json_route_list(self.network, [r_])     # unknown LOOSE include nodes are dropped
                    d = {k: canon(v) for k, v in vars(r_).items() if k not in ('request_id', 'path_bandwidth', 'N', 'M')}
                    docs_.append(d)
                if any(d != docs_[0] for d in docs_[1:]):
                    diff = _first_diff(docs_[0], next(d for d in docs_[1:] if d != docs_[0]))
                    sig = 'non-identical-requests-aggregated'
                    if '/bidir' in diff:
                        sig += ':bidirectional-flag-differs'
                    if not self.known.is_open('C19', sig):
                        raise Violation('C19', sig, f'{who}: members differ in {diff}', signature=sig)
                want = sum(reqdocs[i]['path-constraints']['te-bandwidth']['path_bandwidth'] for i in it['ids'])
            else:
                want = reqdocs[it['ids'][0]]['path-constraints']['te-bandwidth']['path_bandwidth']
            blocked = it['blocking']
            if blocked is not None:
                if 'no-path' not in resp or resp['no-path'].get('no-path') != blocked:
                    raise Violation('C19', 'blocking-reason-not-reported', f'{who}: {blocked} vs {resp.get("no-path")}')
                props = resp['no-path'].get('path-properties')
                if (blocked in BLOCKING_NOPATH) != (props is None):
                    raise Violation('C19', 'path-properties-presence-wrong-for-blocked', f'{who}: {blocked}')
            else:
                if 'no-path' in resp:
                    raise Violation('C19', 'served-request-reported-as-no-path', f'{who}: {resp["no-path"]}')
                props = resp.get('path-properties')
                if props is None:
                    raise Violation('C19', 'served-request-without-path-properties', who)
            if props is None:
                continue
            pro = [o['path-route-object'] for o in props['path-route-objects']]
            hops = [o['num-unnum-hop']['node-id'] for o in pro if 'num-unnum-hop' in o]
            if hops != it['route']:
                raise Violation('C19', 'reported-route-differs-from-computed', f'{who}: {hops[:5]} vs {it["route"][:5]}')
            if [o['index'] for o in pro] != list(range(len(pro))):
                raise Violation('C19', 'route-object-indices-not-sequential', who)
            labels = [o['label-hop'] for o in pro if 'label-hop' in o]
            if blocked is not None and labels:
                raise Violation('C19', 'blocked-request-carries-labels', f'{who}: {labels[:1]}')
            if blocked is None:
                expect = [{'N': n, 'M': m} for n, m in zip(it['N'] or [], it['M'] or [])]
                if not expect or len(labels) != len(hops) or any(lb != expect for lb in labels):
                    raise Violation('C19', 'labels-differ-from-assigned-spectrum', f'{who}: N={it["N"]} M={it["M"]} '
                                    f'labels {labels[:1]} x{len(labels)} hops {len(hops)}')
                if len(expect) > 1:
                    self.st.probes['multi_slot_served'] += 1
            tsp = [o['transponder'] for o in pro if 'transponder' in o]
            if len(tsp) != 2 or any(t != {'transponder-type': it['tsp'], 'transponder-mode': it['mode']} for t in tsp):
                raise Violation('C19', 'transponder-type-or-mode-misreported', f'{who}: {tsp} vs {it["tsp"]}/{it["mode"]}')
            self._check_metrics(props.get('path-metric'), it['rx'], it, want, who, 'path-metric')
            if it['bidir']:
                self.st.probes['bidirectional_response'] += 1
                if 'z-a-path-metric' not in props:
                    raise Violation('C19', 'bidirectional-response-lacks-reverse-metrics', who)
                if it['rrx'] is None:
                    raise Violation('C19', 'reverse-metrics-without-reverse-propagation', who)
                if it['rrx']['uid'] != it['route'][0]:
                    raise Violation('C19', 'reverse-direction-receiver-is-not-the-source', f'{who}: {it["rrx"]["uid"]}')
                self._check_metrics(props['z-a-path-metric'], it['rrx'], it, want, who, 'z-a-path-metric')
            elif 'z-a-path-metric' in props:
                raise Violation('C19', 'unidirectional-response-carries-reverse-metrics', who)
        if sorted(seen) != sorted(submitted):
            raise Violation('C19', 'request-not-reported-exactly-once', f'submitted {submitted} reported {seen}')
        self._check_csv(out, data)

    def _check_metrics(self, metrics, rx, it, want_bw, who, key):
        m = metric_dict(metrics)
        if rx is None:
            raise Violation('C19', 'metrics-without-propagation', f'{who} {key}')
        if any(np.any(np.isnan(rx[f])) for f in ('snr', 'snr_01nm', 'osnr_ase', 'osnr_ase_01nm')):
            # undefined receiver figures (NaN out of the physics): min / max / mean of them are not defined either
            self.st.probes['c19_nan_figures_not_judged'] += 1
            return
        # exact (unrounded) receiver values; a reported value must be a 2-decimal number within half a unit of the
        # last place of the exact one (which way an exact .xx5 tie is rounded is not fixed by the property)
        with np.errstate(invalid='ignore'):
            exact = {'SNR-bandwidth': float(np.mean(rx['snr'])), 'SNR-0.1nm': float(np.mean(rx['snr_01nm'])),
                     'OSNR-bandwidth': float(np.mean(rx['osnr_ase'])), 'OSNR-0.1nm': float(np.mean(rx['osnr_ase_01nm'])),
                     'lowest_SNR-0.1nm': float(np.min(rx['snr_01nm'])), 'biggest_SNR-0.1nm': float(np.max(rx['snr_01nm']))}
        verbatim = {'reference_power': it['power'], 'path_bandwidth': want_bw}
        names = {'pdl': 'PDL_penalty', 'chromatic_dispersion': 'CD_penalty', 'pmd': 'PMD_penalty'}
        for imp, name in names.items():
            if imp in rx['penalties']:
                v = float(np.mean(rx['penalties'][imp]))
                if math.isinf(v):
                    verbatim[name] = 'Infinity'
                else:
                    exact[name] = v
            else:
                verbatim[name] = 'not evaluated'
        for k, v in verbatim.items():
            got = m.get(k)
            if got != v:
                kind = 'aggregated-bandwidth-not-summed' if k == 'path_bandwidth' and len(it['ids']) > 1 else \
                    'reported-metric-differs-from-receiver'
                raise Violation('C19', kind, f'{who} {key}.{k}: reported {got} receiver {v}')
        for k, v in exact.items():
            got = m.get(k)
            if not _rounded_ok(got, v):
                raise Violation('C19', 'reported-metric-differs-from-receiver', f'{who} {key}.{k}: reported {got} '
                                f'receiver {v!r}')

    def _check_csv(self, out, data):
        doc = results_to_json(out['result'])
        before = deepcopy(doc)
        stream = io.StringIO()
        try:
            jsontocsv(doc, self.equipment, stream)
        except Exception as e:      # noqa
            raise Violation('C19', 'csv-export-fails', repr(e))
        # the response that was exported still states the same, and exporting it again states the same rows
        if not _same_doc(doc, before):
            raise Violation('C19', 'response-changed-by-its-csv-export', _first_diff(before, doc))
        again = io.StringIO()
        try:
            jsontocsv(doc, self.equipment, again)
        except Exception as e:      # noqa
            raise Violation('C19', 'second-csv-export-fails', repr(e))
        if again.getvalue() != stream.getvalue():
            raise Violation('C19', 'second-csv-export-differs', '')
        rows = list(csv.DictReader(io.StringIO(stream.getvalue())))
        if [r['response-id'] for r in rows] != [str(x['response-id']) for x in doc['response']]:
            raise Violation('C19', 'csv-rows-differ-from-responses', f'{[r["response-id"] for r in rows]}')
        margin = self.world['eqpt']['SI'][0].get('sys_margins', 0)
        rev_cols = [('reversed path OSNR-0.1nm (average)', 'OSNR-0.1nm'), ('reversed path SNR-0.1nm (average)', 'SNR-0.1nm'),
                    ('reversed path SNR-bandwidth (average)', 'SNR-bandwidth'),
                    ('reversed path SNR-0.1nm (min)', 'lowest_SNR-0.1nm'), ('reversed path SNR-0.1nm (max)', 'biggest_SNR-0.1nm'),
                    ('reversed path PDL_penalty', 'PDL_penalty'), ('reversed path CD_penalty', 'CD_penalty'),
                    ('reversed path PMD_penalty', 'PMD_penalty')]
        for row, it, resp in zip(rows, out['items'], doc['response']):
            who = f'csv row {row["response-id"]}'
            props = (resp.get('no-path') or resp).get('path-properties')
            if props is None:
                extra = {k: v for k, v in row.items() if k not in ('response-id', 'Pass?') and v != ''}
                if extra:
                    raise Violation('C19', 'csv-no-path-row-carries-values', f'{who}: {extra}')
            za = metric_dict(props['z-a-path-metric']) if props and 'z-a-path-metric' in props else None
            for col, metric in rev_cols:
                cell = row[col]
                if za is None:
                    if cell != '':
                        raise Violation('C19', 'csv-reverse-columns-without-reverse-metrics', f'{who}: {col} = {cell}')
                    continue
                want = za[metric]
                same = cell == str(want) or (isinstance(want, (int, float)) and cell != '' and
                                             abs(float(cell) - round(want, 2)) < 1e-9)
                if not same:
                    raise Violation('C19', 'csv-reverse-metric-wrong', f'{who}: {col} = {cell!r}, response {want!r}')
            if it['blocking'] is not None:
                if row['Pass?'] != it['blocking']:
                    raise Violation('C19', 'csv-blocking-reason-wrong', f'{who}: {row["Pass?"]} vs {it["blocking"]}')
                if row['spectrum (N,M)']:
                    raise Violation('C19', 'csv-blocked-row-carries-spectrum', f'{who}: {row["spectrum (N,M)"]}')
                continue
            if row['transponder-type'] != str(it['tsp']) or row['transponder-mode'] != str(it['mode']):
                raise Violation('C19', 'csv-transponder-wrong', f'{who}: {row["transponder-type"]}/'
                                f'{row["transponder-mode"]}')
            if row['source'] != it['route'][0] or row['destination'] != it['route'][-1]:
                raise Violation('C19', 'csv-endpoints-wrong', f'{who}: {row["source"]} -> {row["destination"]}')
            if row['path'] != ' | '.join(it['route']):
                raise Violation('C19', 'csv-path-wrong', who)
            if row['spectrum (N,M)'] != f'{it["N"]}, {it["M"]}':
                raise Violation('C19', 'csv-spectrum-wrong', f'{who}: {row["spectrum (N,M)"]} vs {it["N"]}, {it["M"]}')
            rx = it['rx']
            if np.any(np.isnan(rx['snr_01nm'])) or np.any(np.isnan(rx['osnr_ase_01nm'])) or \
                    (it['rrx'] is not None and np.any(np.isnan(it['rrx']['snr_01nm']))):
                continue
            snr_min = float(row['SNR-0.1nm (min)'])
            if not _rounded_ok(snr_min, float(np.min(rx['snr_01nm']))) or \
                    not _rounded_ok(float(row['SNR-0.1nm (average)']), float(np.mean(rx['snr_01nm']))) or \
                    not _rounded_ok(float(row['OSNR-0.1nm (average)']), float(np.mean(rx['osnr_ase_01nm']))):
                raise Violation('C19', 'csv-metric-differs-from-receiver', f'{who}: {row["SNR-0.1nm (min)"]} vs '
                                f'{float(np.min(rx["snr_01nm"]))!r}')
            rq = it['rq']
            mode_doc = next((m for m in self.equipment['Transceiver'][it['tsp']].mode if m['format'] == it['mode']), None)
            if mode_doc is not None:
                from fractions import Fraction
                pairs = math.ceil(Fraction(int(round(it['path_bandwidth']))) / Fraction(int(round(mode_doc['bit_rate']))))
                want = {'nb of tsp pairs': pairs, 'total cost': pairs * mode_doc['cost'],
                        'bit rate': round(mode_doc['bit_rate'] * 1e-9, 2), 'baud rate (Gbaud)': round(mode_doc['baud_rate'] * 1e-9, 2),
                        'path_bandwidth': round(it['path_bandwidth'] * 1e-9, 2)}
                for col, v in want.items():
                    if row[col] == '' or abs(float(row[col]) - v) > 1e-6:
                        raise Violation('C19', 'csv-transponder-count-cost-or-rate-wrong', f'{who}: {col} = {row[col]!r}, '
                                        f'computed {v} (bandwidth {it["path_bandwidth"]}, bit rate {mode_doc["bit_rate"]})')
            thr = it['rq'].OSNR + margin
            if abs(float(row['min required OSNR (inc. margin)']) - thr) > 1e-9:
                raise Violation('C19', 'csv-threshold-excludes-margin', f'{who}: {row["min required OSNR (inc. margin)"]} '
                                f'vs {thr}')
            if abs(snr_min - thr) >= JUDGE_BAND and row['Pass?'] != str(snr_min >= thr):
                raise Violation('C19', 'csv-pass-flag-inconsistent', f'{who}: Pass?={row["Pass?"]} min GSNR {snr_min} '
                                f'threshold {thr}')
            if it['bidir'] and it['rrx'] is not None:
                rmin = float(np.min(it['rrx']['snr_01nm']))
                if row['reversed path SNR-0.1nm (min)'] == '' or \
                        not _rounded_ok(float(row['reversed path SNR-0.1nm (min)']), rmin):
                    raise Violation('C19', 'csv-reverse-metric-wrong', f'{who}: {row["reversed path SNR-0.1nm (min)"]} '
                                    f'vs {rmin}')

    # ---------------------------------------------------------------------------------------------------------
    # operations
    def do_plan(self, data, fault=None, tag='batch'):
        if self.discarded:
            return {'kind': 'discarded'}
        self.plans += 1
        try:
            out = self._run_planning(self.network, self.equipment, data, fault)
        except PLAN_ERRORS as e:
            self.failed_plans += 1
            kind = 'injected' if isinstance(e, InjectedFault) else type(e).__name__
            self.st.faults[f'failing_plan:{kind}'] += 1
            if not isinstance(e, (ServiceError, DisjunctionError, EquipmentConfigError, InjectedFault)):
                import traceback
                tb = traceback.extract_tb(e.__traceback__)[-1]
                self.st.notes[f'plan_error:{kind}:{str(e)[:70]}@{tb.name}:{tb.lineno}'] += 1
            self._unchanged_checks(f'after failed plan ({kind})')
            self.plan_kinds.append('fail')
            if 'C16' in self.props and not isinstance(e, InjectedFault):
                # a batch may only fail on the long-lived network if it also fails on a fresh state
                key = 'batch:' + jdigest([data, self.sim_doc])
                if key not in self.ref_cache:
                    eq, net, _ = self._fresh_designed()
                    try:
                        self._run_planning(net, eq, data)
                        self.ref_cache[key] = None
                    except PLAN_ERRORS as e2:
                        self.ref_cache[key] = type(e2).__name__
                if self.ref_cache[key] is None:
                    raise Violation('C16', 'batch-fails-on-the-used-network-but-not-on-a-fresh-one',
                                    f'{kind}: {str(e)[:200]}')
                # ... and only if at least one of its requests (with its disjunction group) fails alone
                groups = self._groups(data)
                ids = [str(r['request-id']) for r in data['path-request']]
                if len(set(ids)) == len(ids) and all(self._reference(data, groups[i])['ok'] for i in ids):
                    raise Violation('C16', 'batch-fails-although-every-request-succeeds-alone',
                                    f'{kind}: {str(e)[:200]}')
            return {'kind': f'fail:{kind}'}
        if fault:
            self.st.notes['armed_fault_did_not_fire'] += 1
        self._unchanged_checks('after plan')
        n_items = len(out['items'])
        kinds = sorted({(it['blocking'] or 'served') for it in out['items']})
        for it in out['items']:
            if it['rx'] is not None and it['rq'].baud_rate is not None:
                self.st.probes['propagated_request'] += 1
        if 'C16' in self.props:
            self._compare_c16(data, out)
            if n_items >= 2 and (self.failed_plans or len(kinds) > 1 or self.plans > 1):
                self.nontrivial = True
        if 'C13' in self.props:
            self._judge_c13(data, out)
            if any(it['bidir'] or it['blocking'] in BLOCKING_NOMODE or
                   data['path-request'][0]['path-constraints']['te-bandwidth'].get('trx_mode') is None
                   for it in out['items']):
                self.nontrivial = True
        if 'C14' in self.props:
            self._judge_c14(data, out)
            if any(it['blocking'] in BLOCKING_NOSPECTRUM for it in out['items']) and \
                    any(it['blocking'] is None for it in out['items']):
                self.nontrivial = True
        if 'C19' in self.props:
            self._judge_c19(data, out)
            if len(kinds) > 1 or any(len(it['ids']) > 1 or it['bidir'] for it in out['items']):
                self.nontrivial = True
        self.plan_kinds.append('ok')
        self.last_cd = [(it['tsp'], it['mode'], float(np.min(it['rx']['chromatic_dispersion'])),
                         float(np.max(it['rx']['chromatic_dispersion'])))
                        for it in out['items'] if it['rx'] is not None and it['mode'] is not None
                        and not np.any(np.isnan(it['rx']['chromatic_dispersion']))]
        self.last_sim = [(it['route'], it['rq']) for it in out['items']
                         if it['route'] and it['rq'].baud_rate is not None and it['rq'].tsp_mode is not None]
        for it in out['items']:
            self.st.outcomes[it['blocking'] or 'served'] += 1
        return {'kind': f'{tag}:{n_items}:' + '+'.join(kinds),
                'digest': jdigest([[it['rid'], it['route'], it['mode'], it['blocking'], it['N'], it['M']]
                                   for it in out['items']])}

    def do_simulate(self, index, mode_index):
        """what gnpy-transmission-example / worker_utils.transmission_simulation does: the real propagate() through
        long-lived elements (a copy of the designed network kept for simulations only, so that planning is not
        affected), along the route of a request of the last plan, with one of the modes of its transceiver.  Judged
        (C13): the penalties the receiver holds afterwards are the interpolation of THIS mode's tables at the
        receiver's own impairments, however many simulations the receiver has seen before."""
        if self.discarded or not self.last_sim:
            return {'kind': 'nothing'}
        route, rq = self.last_sim[index % len(self.last_sim)]
        tdoc = next((t for t in self.world['eqpt']['Transceiver']
                     if rq.tsp in [t['type_variety']] + t.get('other_name', [])), None)
        if tdoc is None:
            return {'kind': 'nothing'}
        if self.sim_network is None:
            self.sim_network = deepcopy(self.network)
        by_uid = {n.uid: n for n in self.sim_network.nodes()}
        path = [by_uid[u] for u in route]
        mdoc = tdoc['mode'][mode_index % len(tdoc['mode'])]
        lib = next(m for m in self.equipment['Transceiver'][rq.tsp].mode if m['format'] == mdoc['format'])
        rq = deepcopy(rq)
        if hasattr(rq, 'blocking_reason'):
            delattr(rq, 'blocking_reason')
        rq.baud_rate, rq.OSNR, rq.tx_osnr, rq.bit_rate = lib['baud_rate'], lib['OSNR'], lib['tx_osnr'], lib['bit_rate']
        rq.tsp_mode = rq.format = lib['format']
        rq.penalties = lib.get('penalties') or {}
        rq.offset_db = lib.get('equalization_offset_db', 0)
        rq.roll_off = lib.get('roll_off') or self.equipment['SI']['default'].roll_off
        if rq.baud_rate > rq.spacing:
            return {'kind': 'mode-does-not-fit'}
        self.st.faults['transmission_simulation_through_long_lived_elements'] += 1
        try:
            propagate(path, rq, self.equipment)
        except PLAN_ERRORS as e:
            return {'kind': f'simulated:{type(e).__name__}'}
        rx = path[-1]
        imp = {'chromatic_dispersion': np.array(rx.chromatic_dispersion, dtype=float),
               'pmd': np.array(rx.pmd, dtype=float), 'pdl': np.array(rx.pdl, dtype=float)}
        if 'C13' in self.props and not any(np.any(np.isnan(v)) for v in imp.values()):
            total = np.zeros(len(imp['pmd']))
            for k, table in doc_penalties(mdoc).items():
                total = total + my_interp_penalty(imp[k], table)
            got = np.broadcast_to(np.array(rx.total_penalty, dtype=float), total.shape)
            same = np.all((np.isinf(total) & np.isinf(got)) | (np.abs(np.where(np.isinf(total), 0, total)
                                                                        - np.where(np.isinf(got), 0, got)) < 1e-9)) \
                and np.array_equal(np.isinf(total), np.isinf(got))
            if not same:
                raise Violation('C13', 'receiver-penalty-is-not-that-of-the-simulated-mode',
                                f'{rq.tsp}/{rq.tsp_mode} at {rx.uid} after {self.simulations} earlier simulation(s): '
                                f'receiver holds total penalty {np.unique(np.round(got, 4))[:4]}, '
                                f'tables of the mode give {np.unique(np.round(total, 4))[:4]}')
            self.nontrivial = self.nontrivial or self.simulations > 0
        self.simulations += 1
        return {'kind': 'simulated:ok',
                'digest': jdigest(np.round(np.nan_to_num(np.array(rx.snr_01nm, dtype=float), posinf=1e9, neginf=-1e9),
                                           9).tolist())}

    def do_edit_mode(self, trx, mode, delta_osnr):
        """the operator edits the required OSNR of one mode in the equipment library this process holds (object and
        document alike); everything computed afterwards must follow the new value"""
        if self.discarded:
            return {'kind': 'discarded'}
        hit = False
        for t in self.world['eqpt']['Transceiver']:
            if t['type_variety'] != trx:
                continue
            for m in t['mode']:
                if m['format'] == mode:
                    m['OSNR'] = m['OSNR'] + delta_osnr
                    hit = True
            for name in [t['type_variety']] + t.get('other_name', []):
                if name in self.equipment['Transceiver']:
                    for m in self.equipment['Transceiver'][name].mode:
                        if m['format'] == mode:
                            m['OSNR'] = m['OSNR'] + delta_osnr
        if not hit:
            return {'kind': 'nomode'}
        self.snap_eq = strip_none(canon(self.equipment))
        self.ref_cache = {}
        self.st.faults['library_mode_edited'] += 1
        return {'kind': 'edited'}

    def do_edit_penalty(self, trx, mode, cd_hi):
        """the operator replaces the CD penalty table of one mode (library object and documents alike)"""
        if self.discarded:
            return {'kind': 'discarded'}
        table_doc = [{'chromatic_dispersion': cd_hi / 2, 'penalty_value': 0.5},
                     {'chromatic_dispersion': cd_hi, 'penalty_value': 1.0}]
        hit = False
        for t in self.world['eqpt']['Transceiver']:
            if t['type_variety'] != trx:
                continue
            for m in t['mode']:
                if m['format'] == mode:
                    m['penalties'] = [p for p in m.get('penalties', []) if 'chromatic_dispersion' not in p] + table_doc
                    hit = True
            for name in [t['type_variety']] + t.get('other_name', []):
                if name in self.equipment['Transceiver']:
                    for m in self.equipment['Transceiver'][name].mode:
                        if m['format'] == mode:
                            m['penalties'] = dict(m['penalties'])
                            m['penalties']['chromatic_dispersion'] = {'up_to_boundary': [0, cd_hi / 2, cd_hi],
                                                                      'penalty_value': [0, 0.5, 1.0]}
        if not hit:
            return {'kind': 'nomode'}
        self.snap_eq = strip_none(canon(self.equipment))
        self.ref_cache = {}
        self.st.faults['library_penalty_table_edited'] += 1
        return {'kind': 'edited'}

    def do_set_sim(self, doc):
        if self.discarded:
            return {'kind': 'discarded'}
        gn.set_sim_params(doc)
        self.sim_doc = doc
        self.snap_sim = gn.sim_params_snapshot()
        self.st.faults['sim_params_change'] += 1
        return {'kind': 'set'}

    def finish(self):
        TAP.reset()
        gn.reset_process_globals()


def _rounded_ok(got, exact):
    """`got` is `exact` rounded to two decimals (either way at an exact tie)"""
    if not isinstance(got, (int, float)) or isinstance(got, bool):
        return False
    if math.isnan(exact) or math.isinf(exact):
        return (math.isnan(got) and math.isnan(exact)) or got == exact
    return abs(got - round(got, 2)) < 1e-9 and abs(got - exact) <= 0.005 + 1e-9


def _same_value(a, b):
    if isinstance(a, float) and isinstance(b, float) and math.isnan(a) and math.isnan(b):
        return True
    return a == b


def _same_doc(a, b):
    """equality of two JSON-like documents in which NaN equals NaN"""
    if isinstance(a, dict) and isinstance(b, dict):
        return a.keys() == b.keys() and all(_same_doc(a[k], b[k]) for k in a)
    if isinstance(a, (list, tuple)) and isinstance(b, (list, tuple)):
        return len(a) == len(b) and all(_same_doc(x, y) for x, y in zip(a, b))
    if isinstance(a, float) and isinstance(b, float) and math.isnan(a) and math.isnan(b):
        return True
    return type(a) == type(b) and a == b


def _channel_frequencies(rq, eq, path):
    """frequencies of the channels that reach the receiver (same construction the request describes)"""
    from gnpy.core.info import create_input_spectral_information
    from gnpy.topology.request import filter_si
    si = create_input_spectral_information(f_min=rq.f_min, f_max=rq.f_max, roll_off=rq.roll_off,
                                           baud_rate=rq.baud_rate, spacing=rq.spacing, tx_osnr=rq.tx_osnr,
                                           tx_power=rq.tx_power, delta_pdb=rq.offset_db)
    return np.array(filter_si(path, eq, si).frequency)


def _first_diff(a, b, path=''):
    if type(a) != type(b):
        return f'{path}: {str(a)[:80]} -> {str(b)[:80]}'
    if isinstance(a, dict):
        for k in sorted(set(a) | set(b)):
            if a.get(k) != b.get(k):
                return _first_diff(a.get(k), b.get(k), f'{path}/{k}')
    if isinstance(a, list):
        if len(a) != len(b):
            return f'{path}: length {len(a)} -> {len(b)}'
        for i, (x, y) in enumerate(zip(a, b)):
            if x != y:
                return _first_diff(x, y, f'{path}[{i}]')
    return f'{path}: {str(a)[:80]} -> {str(b)[:80]}'


# --------------------------------------------------------------------------------------------------------------
# generation

SPACINGS = [50e9, 75e9, 62.5e9, 37.5e9, 100e9, 87.5e9]


@st.composite
def request_strategy(draw, world, rid, swarm):
    sites = world['meta']['sites']
    a = draw(st.sampled_from(sites))
    b = draw(st.sampled_from([s for s in sites if s != a]))
    trxs = world['eqpt']['Transceiver']
    own = [t for t in trxs if t['type_variety'].startswith('trx')]
    t = draw(st.sampled_from(own * 3 + trxs))
    tname = t['type_variety']
    if t.get('other_name') and draw(st.booleans()):
        tname = t['other_name'][0]
    fixed = draw(st.booleans())
    mode = draw(st.sampled_from(t['mode'])) if fixed else None
    spacing = draw(st.sampled_from(SPACINGS))
    raising = swarm['raising'] and draw(st.integers(0, 7)) == 0
    if mode is not None and not raising:
        spacing = max(spacing, mode['min_spacing'])
    nch = draw(st.sampled_from([None, 20, 10, 40, 5, 30]))
    fmin, fmax = t['frequency']['min'], t['frequency']['max']
    if nch is not None and not raising:
        nch = max(1, min(nch, int((fmax - fmin) // spacing)))
    power = draw(st.sampled_from([None, 1e-3, 2e-3, 0.5e-3]))
    if swarm['saturating'] and draw(st.integers(0, 3)) == 0:
        power = draw(st.sampled_from([4e-3, 6.3e-3, 1e-2]))
        nch = None
    bw = draw(st.sampled_from([100e9, 200e9, 400e9, 300e9, 800e9, 500e9, 1000e9]))
    tb = {'technology': 'flexi-grid', 'trx_type': tname, 'trx_mode': mode['format'] if mode else None,
          'effective-freq-slot': [{'N': None, 'M': None}], 'spacing': spacing, 'max-nb-of-channel': nch,
          'output-power': power, 'path_bandwidth': bw}
    if raising and draw(st.integers(0, 2)) == 0:
        tb['trx_type'] = 'no-such-trx'
    if swarm['fixed_slots'] and draw(st.integers(0, 3)) == 0:
        m = draw(st.sampled_from([None, 4, 8, 6, 12]))
        n = draw(st.sampled_from([None, 0, -100, 40, -240, 8]))
        tb['effective-freq-slot'] = [{'N': n, 'M': m}]
        if draw(st.integers(0, 2)) == 0:
            tb['effective-freq-slot'].append({'N': None if n is None else n + 40, 'M': m})
    r = {'request-id': str(rid), 'source': f'trx {a}', 'destination': f'trx {b}', 'src-tp-id': f'trx {a}',
         'dst-tp-id': f'trx {b}', 'bidirectional': swarm['bidir'] and draw(st.booleans()),
         'path-constraints': {'te-bandwidth': tb}}
    via_links = [(l1, l2) for l1 in world['meta']['links'] for l2 in world['meta']['links']
                 if l1['from'] == a and l1['to'] == l2['from'] and l2['to'] == b and l1['to'] not in (a, b)]
    if swarm['include'] and via_links and draw(st.integers(0, 3)) == 0:
        # an explicit route: line elements of two adjacent links a -> m -> b, in order
        l1, l2 = draw(st.sampled_from(via_links))
        hop = draw(st.sampled_from(['LOOSE', 'STRICT']))
        nodes = [draw(st.sampled_from([l1['first'], l1['last']])), draw(st.sampled_from([l2['first'], l2['last']]))]
        r['explicit-route-objects'] = {'route-object-include-exclude': [
            {'explicit-route-usage': 'route-include-ero', 'index': k,
             'num-unnum-hop': {'node-id': n, 'link-tp-id': 'link-tp-id is not used', 'hop-type': hop}}
            for k, n in enumerate(nodes)]}
    elif swarm['include'] and draw(st.integers(0, 2)) == 0:
        hops = []
        for k in range(draw(st.integers(1, 2))):
            # the far end first makes many two-node lists unsatisfiable (LOOSE falls back, STRICT blocks)
            via = draw(st.sampled_from([b, a] + sites))
            hop = draw(st.sampled_from(['LOOSE', 'LOOSE', 'STRICT']))
            node = f'roadm {via}'
            if draw(st.integers(0, 2)) == 0:
                line = [e['uid'] for e in world['topo']['elements'] if e['type'] in ('Fiber', 'Edfa', 'Fused',
                                                                                       'Multiband_amplifier')]
                if line:
                    node = draw(st.sampled_from(line))
            if raising and draw(st.integers(0, 2)) == 0:
                node = 'roadm nowhere'
            hops.append({'explicit-route-usage': 'route-include-ero', 'index': k,
                         'num-unnum-hop': {'node-id': node, 'link-tp-id': 'link-tp-id is not used', 'hop-type': hop}})
        r['explicit-route-objects'] = {'route-object-include-exclude': hops}
    return r


def near_duplicate(draw, req, rid):
    """a copy of an earlier request: identical (aggregates) or differing in exactly one attribute that must keep the
    two requests apart (hop type of the include list, direction flag, spacing, ...)"""
    dup = deepcopy(req)
    dup['request-id'] = str(rid)
    tb = dup['path-constraints']['te-bandwidth']
    tb['path_bandwidth'] = draw(st.sampled_from([100e9, 200e9]))
    hops = dup.get('explicit-route-objects', {}).get('route-object-include-exclude', [])
    what = draw(st.integers(0, 5))
    if hops and draw(st.booleans()):
        what = 0
    if what == 0 and hops:
        for h in hops:
            h['num-unnum-hop']['hop-type'] = 'STRICT' if h['num-unnum-hop']['hop-type'] == 'LOOSE' else 'LOOSE'
    elif what == 1:
        dup['bidirectional'] = not dup['bidirectional']
    elif what == 2:
        tb['output-power'] = draw(st.sampled_from([1e-3, 2e-3, None]))
    elif what == 3 and tb.get('trx_mode') is None:
        tb['spacing'] = draw(st.sampled_from(SPACINGS))
    elif what in (4, 5) and len(hops) > 1:
        del hops[draw(st.integers(0, len(hops) - 1))]
        for k, h in enumerate(hops):
            h['index'] = k
    return dup


@st.composite
def batch_strategy(draw, world, swarm, first_id=0, max_requests=6):
    n = draw(st.integers(1, max_requests))
    reqs = []
    for i in range(n):
        if reqs and swarm['aggregate'] and draw(st.integers(0, 3)) == 0:
            reqs.append(near_duplicate(draw, draw(st.sampled_from(reqs)), first_id + i))
        else:
            reqs.append(draw(request_strategy(world, first_id + i, swarm)))
    data = {'path-request': reqs}
    if swarm['disjunction'] and n >= 2 and draw(st.integers(0, 2)) == 0:
        i = draw(st.integers(0, n - 2))
        j = draw(st.integers(i + 1, n - 1))
        data['synchronization'] = [{'synchronization-id': 's1', 'svec': {
            'relaxable': False, 'disjointness': 'node link',
            'request-id-number': [reqs[i]['request-id'], reqs[j]['request-id']]}}]
    return data


SIM_DOCS = [
    {'raman_params': {'flag': False}, 'nli_params': {'method': 'gn_model_analytic'}},
    {'raman_params': {'flag': False}, 'nli_params': {'method': 'ggn_approx', 'computed_number_of_channels': 3}},
    {'raman_params': {'flag': True, 'result_spatial_resolution': 50e3, 'solver_spatial_resolution': 1e3},
     'nli_params': {'method': 'gn_model_analytic'}},
]


def make_machine(prop, tier, cfg):
    props = {prop}
    max_requests = {'C16': 6, 'C13': 3, 'C19': 6, 'C14': 8}[prop]

    @st.composite
    def any_world(draw):
        k = draw(st.integers(0, 7))
        if k == 0:
            return draw(worlds.multiband_world_strategy())
        if k == 1 and prop in ('C16', 'C19'):
            w = draw(worlds.raman_world_strategy())
            w['eqpt']['Transceiver'].append(draw(worlds.transceiver_strategy('trx9', 3)))
            w['sim'] = {'raman_params': {'flag': True, 'result_spatial_resolution': 10e3,
                                         'solver_spatial_resolution': 500}, 'nli_params': {'method': 'gn_model_analytic'}}
            return w
        return draw(worlds.world_strategy('small' if prop == 'C13' else 'mesh'))

    class E3Machine(RuleBasedStateMachine):
        def __init__(self):
            super().__init__()
            self.sess = None
            self.batches = []
            self.next_id = 0

        @initialize(world=any_world(), swarm=st.fixed_dictionaries({
            'raising': st.booleans(), 'saturating': st.booleans(), 'bidir': st.booleans(), 'include': st.booleans(),
            'aggregate': st.booleans(), 'disjunction': st.booleans(), 'inject': st.booleans(),
            'fixed_slots': st.booleans(), 'sim': st.booleans()}))
        def start(self, world, swarm):
            self.swarm = swarm
            self.world = world
            self.sess = E3Session(world, props)
            session_started(self.sess)
            self.sess.boot()

        def _fault(self, code):
            if self.swarm['inject'] and code is not None:
                if code % 5 == 4:
                    return {'solver_call': 1 + code % 7}
                return {'element_event': 1 + code}
            return None

        @rule(data=st.data(), fault=st.one_of(st.none(), st.integers(0, 80)))
        def plan_new(self, data, fault):
            batch = data.draw(batch_strategy(self.world, self.swarm, self.next_id, max_requests))
            self.next_id += len(batch['path-request'])
            self.batches.append(batch)
            self.sess.apply('plan', {'data': batch, 'fault': self._fault(fault), 'tag': 'new'})

        @precondition(lambda self: self.batches)
        @rule(data=st.data(), which=st.integers(0, 50), fault=st.one_of(st.none(), st.none(), st.integers(0, 80)))
        def plan_permuted(self, data, which, fault):
            batch = deepcopy(self.batches[which % len(self.batches)])
            batch['path-request'] = data.draw(st.permutations(batch['path-request']))
            self.sess.apply('plan', {'data': batch, 'fault': self._fault(fault), 'tag': 'perm'})

        @precondition(lambda self: self.batches)
        @rule(which=st.integers(0, 50), keep=st.lists(st.booleans(), min_size=8, max_size=8))
        def plan_sub(self, which, keep):
            batch = deepcopy(self.batches[which % len(self.batches)])
            grouped = {str(i) for s in batch.get('synchronization', []) for i in s['svec']['request-id-number']}
            kept = [r for k, r in zip(keep, batch['path-request']) if k or r['request-id'] in grouped]
            if not kept:
                kept = batch['path-request'][:1]
            batch['path-request'] = kept
            self.sess.apply('plan', {'data': batch, 'fault': None, 'tag': 'sub'})

        @precondition(lambda self: self.batches)
        @rule(which=st.integers(0, 50))
        def plan_again(self, which):
            self.sess.apply('plan', {'data': deepcopy(self.batches[which % len(self.batches)]), 'fault': None,
                                     'tag': 'again'})

        @precondition(lambda self: self.swarm['sim'] and self.batches)
        @rule(which=st.integers(0, 50), req=st.integers(0, 9), delta=st.sampled_from([3.0, -3.0, 6.0, 10.0, -6.0]))
        def edit_mode(self, which, req, delta):
            batch = self.batches[which % len(self.batches)]
            tb = batch['path-request'][req % len(batch['path-request'])]['path-constraints']['te-bandwidth']
            t = next((t for t in self.world['eqpt']['Transceiver']
                      if tb['trx_type'] in [t['type_variety']] + t.get('other_name', [])), None)
            if t is None:
                return
            mode = tb.get('trx_mode') or t['mode'][req % len(t['mode'])]['format']
            self.sess.apply('edit_mode', {'trx': t['type_variety'], 'mode': mode, 'delta_osnr': delta})
            self.sess.apply('plan', {'data': deepcopy(batch), 'fault': None, 'tag': 'after-edit'})

        @precondition(lambda self: self.batches and self.sess is not None and getattr(self.sess, 'last_cd', None))
        @rule(which=st.integers(0, 50), pick=st.integers(0, 9), frac=st.sampled_from([0.5, 0.25, 0.75, 1.5]))
        def edit_penalty_at_the_cd_of_a_path(self, which, pick, frac):
            # a CD penalty table that ends inside the spread of accumulated CD over the channels of a computed path
            tsp, mode, lo, hi = self.sess.last_cd[pick % len(self.sess.last_cd)]
            t = next((t for t in self.world['eqpt']['Transceiver']
                      if tsp in [t['type_variety']] + t.get('other_name', [])), None)
            if t is None or hi <= 0:
                return
            boundary = round(lo + (hi - lo) * frac, 3) if hi > lo else round(hi * frac, 3)
            if boundary <= 0:
                return
            batch = self.batches[which % len(self.batches)]
            self.sess.apply('edit_penalty', {'trx': t['type_variety'], 'mode': mode, 'cd_hi': boundary})
            self.sess.apply('plan', {'data': deepcopy(batch), 'fault': None, 'tag': 'after-penalty-edit'})

        @precondition(lambda self: prop == 'C13' and self.sess is not None and getattr(self.sess, 'last_sim', None))
        @rule(index=st.integers(0, 9), modes=st.lists(st.integers(0, 7), min_size=1, max_size=3))
        def simulate(self, index, modes):
            # successive transmission simulations of one service with different modes, through the same elements
            for m in modes:
                self.sess.apply('simulate', {'index': index, 'mode_index': m})

        @precondition(lambda self: self.swarm['sim'] and self.world.get('flavour') != 'raman')
        @rule(which=st.integers(0, len(SIM_DOCS) - 1))
        def set_sim(self, which):
            self.sess.apply('set_sim', {'doc': SIM_DOCS[which]})

        def teardown(self):
            if self.sess is not None:
                try:
                    self.sess.close()
                finally:
                    session_closed(self.sess)

    E3Machine.__name__ = f'E3Machine_{prop}'
    return E3Machine


def replay(record, known=None):
    sess = E3Session(record['world'], record['props'], known)
    sess.boot()
    for op, args in record['oplog']:
        sess.apply(op, args)
    sess.close()
    return sess


RULES = {
    'C14': 'planning layer: one evaluation = one session as for C16 (batches of up to 8 requests, fixed / free N and M); after '
           'every successful planning() the OMS list it returns must hold exactly the union of the accepted assignments on '
           'every OMS of each route and of its opposite direction. Non-trivial = a batch with an accepted and a '
           'spectrum-blocked request.',
    'C16': 'one evaluation = one session: a generated world (2-5 ROADM sites, equipment/topology/SI documents through the '
           'public loaders, auto-designed once) kept alive for a history of planning() calls: new batches (1-6 requests, '
           'fixed / automatic mode, bidirectional, include nodes, aggregating duplicates, disjunction pairs, saturating '
           'power), permutations, sub-batches and repetitions of earlier batches, SimParams changes, and failing plans '
           '(raising requests, DisjunctionError, injected exceptions at a drawn element crossing or solver call). Every '
           'request is compared with the same request (+ its group) planned alone on a freshly loaded and designed '
           'world. Non-trivial = a compared batch of >= 2 requests after a failed plan, with mixed outcomes, or on a '
           'network that already served an earlier plan; distinct = distinct sequence of (op, outcome kinds).',
    'C13': 'one evaluation = one session as for C16 with small worlds and 1-3 requests per batch; for every request '
           'with a route, every candidate mode is propagated alone on a fresh copy of the route in a freshly designed '
           'world and the verdict / selected mode / receiver figures are re-derived with independent arithmetic. '
           'Non-trivial = a judged request that is automatic-mode, bidirectional or mode-blocked; distinct as above.',
    'C19': 'one evaluation = one session as for C16; after every successful planning() the responses and the CSV '
           'export are checked against the recorded request history and the propagated paths. Non-trivial = mixed '
           'outcomes in one batch, an aggregated or a bidirectional request; distinct as above.',
}

"""Simulated disk: a private scratch directory whose files are real (so renames, temporary files, os.* calls made by
the code under test behave as on a real disk) but whose *writes* go through a fault-injecting file object.

Installed by name injection (gnpy.tools.json_io.open = disk.open), which shadows the builtin inside that module only, so
the real save_network / load_network (including YANG conversion) run against it.  Nothing is changed in /repo.

Fault kinds (armed per operation):
  enospc / eio_write : write() raises OSError after `at` characters; what was written stays in the file (as on a real disk)
  torn_crash         : the process dies after `at` characters reached the disk (SimCrash); the file holds that prefix
  lost_crash         : the process dies before anything of the rewrite reached the disk; the file holds its old content
                       (variant 'old') or is empty (variant 'empty': the truncation reached the disk, the data did not)
  eio_read           : opening for reading raises OSError
"""
import builtins
import errno
import os
import shutil


class SimCrash(BaseException):
    """the process dies here; only what is on the disk survives"""


class FaultyWriter:
    """proxy around a real text file opened for writing"""

    def __init__(self, disk, name, real, old):
        self.disk = disk
        self.name = name
        self.real = real
        self.old = old
        self.written = 0
        self.failed = False
        self.crashed = False
        self.closed = False

    def write(self, s):
        f = self.disk.fault
        if f is not None and not self.failed and f['kind'] in ('enospc', 'eio_write', 'torn_crash', 'lost_crash'):
            room = f['at'] - self.written
            if len(s) > room:
                part = s[:max(room, 0)]
                self.real.write(part)
                self.real.flush()
                self.written += len(part)
                self.failed = True
                self.disk.fired = f['kind']
                if f['kind'] == 'enospc':
                    raise OSError(errno.ENOSPC, 'No space left on device (simulated)', self.name)
                if f['kind'] == 'eio_write':
                    raise OSError(errno.EIO, 'Input/output error (simulated)', self.name)
                self.crashed = True
                self.real.close()
                if f['kind'] == 'lost_crash':
                    with builtins.open(self.name, 'w', encoding='utf-8') as g:
                        if f.get('variant') != 'empty' and self.old is not None:
                            g.write(self.old)
                raise SimCrash(f'crash while {self.name} was being written ({f["kind"]}, {self.written} characters in)')
        self.written += len(s)
        return self.real.write(s)

    def flush(self):
        if not self.crashed:
            self.real.flush()

    def close(self):
        if self.closed:
            return
        self.closed = True
        if self.crashed:
            return
        self.real.close()
        if not self.failed:
            self.disk.completed.setdefault(self.name, []).append(self.disk.read(self.name))

    def __enter__(self):
        return self

    def __exit__(self, *exc):
        self.close()
        return False

    def __getattr__(self, item):
        return getattr(self.real, item)


class SimDisk:
    _counter = 0

    def __init__(self, base=None):
        SimDisk._counter += 1
        root = base or os.environ.get('GNPYSIM_WORK') or \
            os.path.join(os.path.dirname(os.path.dirname(os.path.abspath(__file__))), '.work')
        self.dir = os.path.join(root, f'disk-{os.getpid()}-{SimDisk._counter}')
        os.makedirs(self.dir, exist_ok=True)
        self.completed = {}      # absolute name -> contents of every write that completed normally
        self.fault = None
        self.fired = None

    def path(self, name):
        return os.path.join(self.dir, name)

    def arm(self, fault):
        self.fault = fault
        self.fired = None

    def disarm(self):
        self.fault = None

    def read(self, name):
        """what the disk holds under that name right now (None if there is no such file)"""
        try:
            with builtins.open(name, 'r', encoding='utf-8') as f:
                return f.read()
        except FileNotFoundError:
            return None

    def open(self, filename, mode='r', encoding=None, **kwargs):
        name = os.path.abspath(str(filename))
        if not name.startswith(self.dir):
            return builtins.open(filename, mode, encoding=encoding, **kwargs)      # equipment files etc.: the real disk
        if 'w' in mode or 'a' in mode or '+' in mode:
            old = self.read(name)
            real = builtins.open(name, mode, encoding=encoding, **kwargs)
            return FaultyWriter(self, name, real, old)
        if self.fault is not None and self.fault['kind'] == 'eio_read' and os.path.exists(name):
            self.fired = 'eio_read'
            raise OSError(errno.EIO, 'Input/output error (simulated)', name)
        return builtins.open(name, mode, encoding=encoding, **kwargs)

    def destroy(self):
        shutil.rmtree(self.dir, ignore_errors=True)

"""Simulated disk: in-memory files with durable content and injected write/read faults.

Installed by name injection (gnpy.tools.json_io.open = disk.open), which shadows the builtin inside that module only,
so the real save_network / load_network (including YANG conversion) run against it.  Nothing is changed in /repo."""
import errno
import io


class SimCrash(BaseException):
    """the process dies here; only durable content survives"""


class SimWriter(io.StringIO):
    def __init__(self, disk, name):
        super().__init__()
        self.disk = disk
        self.name = name      # absolute, normalised
        self.old = disk.durable.get(name)
        self.written = 0
        self.failed = False
        self.crashed = False
        disk.opens_w += 1

    def write(self, s):
        f = self.disk.fault
        if f is not None and not self.failed and f['kind'] in ('enospc', 'eio_write', 'torn_crash', 'lost_crash'):
            room = f['at'] - self.written
            if len(s) > room:
                part = s[:max(room, 0)]
                super().write(part)
                self.written += len(part)
                self.failed = True
                self.disk.fired = f['kind']
                if f['kind'] == 'enospc':
                    raise OSError(errno.ENOSPC, 'No space left on device (simulated)', self.name)
                if f['kind'] == 'eio_write':
                    raise OSError(errno.EIO, 'Input/output error (simulated)', self.name)
                if f['kind'] == 'torn_crash':
                    self.crashed = True
                    self.disk.durable[self.name] = self.getvalue()
                    raise SimCrash(f'crash after {self.written} bytes of {self.name} reached the disk')
                if f['kind'] == 'lost_crash':
                    self.crashed = True
                    if f.get('variant') == 'empty' or self.old is None:
                        self.disk.durable[self.name] = ''
                    else:
                        self.disk.durable[self.name] = self.old
                    raise SimCrash(f'crash before any byte of the rewrite of {self.name} reached the disk')
        self.written += len(s)
        return super().write(s)

    def close(self):
        if not self.closed and not self.crashed:
            # a file that was opened for writing and closed (even after a failed write) holds what was written
            self.disk.durable[self.name] = self.getvalue()
            if not self.failed:
                self.disk.completed.setdefault(self.name, []).append(self.getvalue())
        super().close()


class SimDisk:
    def __init__(self):
        self.durable = {}
        self.completed = {}      # name -> contents of every write that completed normally
        self.fault = None
        self.fired = None
        self.opens_w = 0

    def arm(self, fault):
        self.fault = fault
        self.fired = None

    def disarm(self):
        self.fault = None

    def open(self, filename, mode='r', encoding=None, **kwargs):
        import os
        name = os.path.abspath(str(filename))
        if 'w' in mode:
            return SimWriter(self, name)
        if name not in self.durable:
            raise FileNotFoundError(errno.ENOENT, 'No such file (simulated)', name)
        if self.fault is not None and self.fault['kind'] == 'eio_read':
            self.fired = 'eio_read'
            raise OSError(errno.EIO, 'Input/output error (simulated)', name)
        return io.StringIO(self.durable[name])

"""gnpysim - seeded deterministic simulation of long-lived GNPy sessions with fault injection.

See /verif/DESIGN.md.  Everything here drives the *real* gnpy code found in /repo's working tree.
"""

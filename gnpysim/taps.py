"""Seams the simulator owns inside the running process (nothing is changed in /repo).

* element-event tap: class-level wrappers around __call__ of every network element (deep copies are tapped too);
  used (i) to count / snapshot element events and (ii) as a fault point: raise at the k-th crossing.
* solver fault point: RamanSolver.calculate_stimulated_raman_scattering / NliSolver.compute_nli.
All are pass-through unless a session arms them.
"""
from gnpy.core import elements
from gnpy.core import science_utils


class InjectedFault(RuntimeError):
    """a usually-successful call fails"""


class Tap:
    def __init__(self):
        self.reset()

    def reset(self):
        self.events = 0          # element crossings since arm()
        self.solver_calls = 0
        self.fault_at = None     # raise at this element event (1-based)
        self.solver_fault_at = None
        self.fired = None
        self.observer = None     # callable(element, si_in, si_out) or None

    def arm(self, fault_at=None, solver_fault_at=None, observer=None):
        self.reset()
        self.fault_at = fault_at
        self.solver_fault_at = solver_fault_at
        self.observer = observer


TAP = Tap()
_installed = False


def _wrap_call(cls):
    orig = cls.__dict__['__call__']

    def __call__(self, *args, **kwargs):
        TAP.events += 1
        if TAP.fault_at is not None and TAP.events == TAP.fault_at:
            TAP.fired = f'element:{type(self).__name__}'
            raise InjectedFault(f'injected failure at element event {TAP.events} ({type(self).__name__} {self.uid})')
        if TAP.observer is None:
            return orig(self, *args, **kwargs)
        pre = TAP.observer('pre', self, args[0] if args else kwargs.get('spectral_info'), None)
        out = orig(self, *args, **kwargs)
        TAP.observer('post', self, out, pre)
        return out
    __call__._gnpysim_orig = orig
    cls.__call__ = __call__


def _wrap_solver(cls, name):
    orig = getattr(cls, name)

    def wrapped(*args, **kwargs):
        TAP.solver_calls += 1
        if TAP.solver_fault_at is not None and TAP.solver_calls == TAP.solver_fault_at:
            TAP.fired = f'solver:{name}'
            raise InjectedFault(f'injected failure at solver call {TAP.solver_calls} ({name})')
        return orig(*args, **kwargs)
    setattr(cls, name, staticmethod(wrapped))


def install():
    global _installed
    if _installed:
        return
    _installed = True
    for cls in (elements.Transceiver, elements.Roadm, elements.Fused, elements.Fiber, elements.Edfa,
                elements.Multiband_amplifier):
        _wrap_call(cls)
    # RamanFiber inherits Fiber.__call__
    _wrap_solver(science_utils.RamanSolver, 'calculate_stimulated_raman_scattering')
    _wrap_solver(science_utils.NliSolver, 'compute_nli')

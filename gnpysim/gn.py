"""Thin wrappers around GNPy's public entry points, plus process-global state control.

Everything here calls the real code of /repo; nothing is re-implemented."""
from copy import deepcopy

from gnpy.core import exceptions as gx
from gnpy.core.parameters import SimParams, NLIParams, RamanParams
from gnpy.tools import json_io
from gnpy.tools.json_io import _equipment_from_json, network_from_json, network_to_json, DEFAULT_EXTRA_CONFIG
from gnpy.tools.worker_utils import designed_network, planning

REJECT = (gx.ConfigurationError, gx.NetworkTopologyError, gx.EquipmentConfigError, gx.ParametersError)


def reset_process_globals():
    """what a fresh interpreter has: import-time SimParams"""
    SimParams._shared_dict['nli_params'] = NLIParams()
    SimParams._shared_dict['raman_params'] = RamanParams()


def sim_params_snapshot():
    """every attribute of the two process-wide parameter objects, read directly (not through their own to_json)"""
    def attrs(obj):
        out = {}
        for k, v in sorted(vars(obj).items()):
            out[k] = list(v) if isinstance(v, (list, tuple)) else (v.tolist() if hasattr(v, 'tolist') else v)
        return out
    return {'nli_params': attrs(SimParams._shared_dict['nli_params']),
            'raman_params': attrs(SimParams._shared_dict['raman_params'])}


def set_sim_params(doc):
    SimParams.set_params(deepcopy(doc))


def load_equipment(world):
    return _equipment_from_json(deepcopy(world['eqpt']), DEFAULT_EXTRA_CONFIG)


def load_network(topo, equipment):
    return network_from_json(deepcopy(topo), equipment)


def design(equipment, network):
    """auto-design with the SI reference channel, exactly as path_requests_run does"""
    network, _, ref = designed_network(equipment, network)
    return network, ref


def fresh_designed(world, topo=None):
    equipment = load_equipment(world)
    network = load_network(world['topo'] if topo is None else topo, equipment)
    network, ref = design(equipment, network)
    return equipment, network, ref


def export(network):
    return network_to_json(network)

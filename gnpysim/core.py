"""Core of the simulator: seeds, sessions, violations, known findings, task runner, replay, evidence.

One integer (VERIF_SEED) decides everything: it is split into a fixed number of task seeds per tier
(independent of the CPU count); each task runs one Hypothesis stateful machine whose choice sequence is
simultaneously the world, the operation history, the orderings and the fault plan.
"""
import faulthandler
import hashlib
import json
import os
import sys
import time
import traceback
from collections import Counter
import multiprocessing
import multiprocessing.connection
from pathlib import Path

VERIF = Path(__file__).resolve().parent.parent
REPO = Path(os.environ.get('GNPY_SRC', '/repo'))
REPLAYS = VERIF / 'replays'
EVIDENCE = VERIF / 'evidence'
KNOWN_FINDINGS_FILE = VERIF / 'known_findings.json'


# --------------------------------------------------------------------------------------------------------------
# errors

class Violation(Exception):
    """A property does not hold on the history executed so far.

    Raised *inline* at every check site (never from a shared helper) so that Hypothesis sees a distinct
    origin (type + raise line) per violation kind and cannot slip to a different bug while shrinking."""

    def __init__(self, prop, kind, detail='', signature=None):
        super().__init__(f'{prop}:{kind}: {detail}')
        self.prop = prop
        self.kind = kind
        self.detail = detail
        self.signature = signature or kind
        self.step = None


class HarnessError(Exception):
    """The simulator itself is wrong; never reported as a violation."""


def jdigest(obj) -> str:
    return hashlib.blake2b(json.dumps(obj, sort_keys=True, default=str).encode(), digest_size=8).hexdigest()


def task_seed(verif_seed: int, engine: str, tier: str, k: int) -> int:
    h = hashlib.blake2b(f'{verif_seed}|{engine}|{tier}|{k}'.encode(), digest_size=8).digest()
    return int.from_bytes(h, 'big') >> 1


# --------------------------------------------------------------------------------------------------------------
# known findings

class KnownFindings:
    """Read-only view of /verif/known_findings.json.  `open` entries are matched by (property, signature)
    inside the oracles, *before* raising; `fixed` entries suppress nothing."""

    def __init__(self, path=KNOWN_FINDINGS_FILE):
        self.entries = []
        if Path(path).exists():
            self.entries = json.loads(Path(path).read_text())['findings']
        self.hits = Counter()

    def is_open(self, prop, signature) -> bool:
        for e in self.entries:
            if e['property'] == prop and e['signature'] == signature and e['status'] == 'open':
                self.hits[f'{prop} {signature}'] += 1
                return True
        return False

    def what(self, prop_sig):
        prop, sig = prop_sig.split(' ', 1)
        for e in self.entries:
            if e['property'] == prop and e['signature'] == sig:
                return e['what']
        return sig


# --------------------------------------------------------------------------------------------------------------
# statistics

class Stats:
    """Additive counters produced per session and merged per task, then per run."""

    def __init__(self):
        self.sessions = 0
        self.steps = 0
        self.element_events = 0
        self.discards = Counter()
        self.ops = Counter()
        self.faults = Counter()         # fault kinds that actually fired
        self.probes = Counter()         # rare-branch reach counters
        self.outcomes = Counter()
        self.signatures = set()         # history signatures of non-trivial sessions
        self.all_signatures = set()
        self.known_hits = Counter()
        self.samples = []
        self.notes = Counter()

    def to_json(self):
        return {'sessions': self.sessions, 'steps': self.steps, 'element_events': self.element_events,
                'discards': dict(self.discards), 'ops': dict(self.ops), 'faults': dict(self.faults),
                'probes': dict(self.probes), 'outcomes': dict(self.outcomes),
                'signatures': sorted(self.signatures), 'all_signatures': sorted(self.all_signatures),
                'known_hits': dict(self.known_hits), 'samples': self.samples, 'notes': dict(self.notes)}

    def merge_json(self, j):
        self.sessions += j['sessions']
        self.steps += j['steps']
        self.element_events += j['element_events']
        for name in ('discards', 'ops', 'faults', 'probes', 'outcomes', 'known_hits', 'notes'):
            getattr(self, name).update(j[name])
        self.signatures.update(j['signatures'])
        self.all_signatures.update(j['all_signatures'])
        for s in j['samples']:
            if len(self.samples) < 3:
                self.samples.append(s)


# --------------------------------------------------------------------------------------------------------------
# session base

class SessionBase:
    """The long-lived process state of one simulated GNPy process plus its operation history.

    Sub-classes implement do_<op>(**args) taking JSON-serialisable arguments only; the Hypothesis machine and the
    replayer both go through apply().  Nothing in here draws randomness or reads a clock."""

    ENGINE = '?'

    def __init__(self, world, props, known=None):
        self.world = world
        self.world_initial = world       # what replay files carry; engines that edit documents work on a copy
        self.props = set(props)
        self.known = known if known is not None else KnownFindings()
        self.oplog = []
        self.events = []
        self.step = 0
        self.violation = None
        self.discarded = None
        self.st = Stats()
        self.sig = []           # history signature parts
        self.nontrivial = False

    # -- driving
    def boot(self):
        """builds the initial process state (step 0); a violation here is recorded like any other"""
        try:
            self.setup()
        except Violation as v:
            v.step = 0
            self.violation = v
            violation_seen(self)
            raise
        return self

    def setup(self):
        pass

    def apply(self, op, args):
        self.step += 1
        self.oplog.append([op, args])
        self.st.ops[op] += 1
        try:
            out = getattr(self, 'do_' + op)(**args)
        except Violation as v:
            v.step = self.step
            self.violation = v
            violation_seen(self)
            raise
        self.events.append([self.step, op, jdigest(args), jdigest(out)])
        self.sig.append(f'{op}:{self.outcome_kind(out)}')
        return out

    def outcome_kind(self, out):
        if isinstance(out, dict) and 'kind' in out:
            return out['kind']
        return ''

    def finish(self):
        """End-of-history checks; sub-classes extend."""

    def close(self):
        """Called exactly once per session (by the machine's teardown or the replayer)."""
        if self.violation is None and self.discarded is None:
            try:
                self.finish()
            except Violation as v:
                v.step = self.step
                self.violation = v
                self.cleanup()
                self.account()
                raise
        self.cleanup()
        self.account()

    def cleanup(self):
        """release what the session holds outside the Python heap (scratch directories, injected seams)"""

    def account(self):
        self.st.sessions += 1
        self.st.steps += self.step
        if self.discarded is not None:
            self.st.discards[self.discarded] += 1
        signature = jdigest(self.sig)
        self.st.all_signatures.add(signature)
        if self.nontrivial and self.discarded is None:
            self.st.signatures.add(signature)
            if len(self.st.samples) < 2:
                self.st.samples.append({'world': self.world_summary(), 'oplog': self.oplog[:30],
                                        'outcomes': self.sig[:30]})
        self.st.known_hits.update(self.known.hits)
        self.known.hits = Counter()

    def world_summary(self):
        return self.world

    def event_digest(self):
        return jdigest(self.events)

    def record(self):
        v = self.violation
        return {'engine': self.ENGINE, 'props': sorted(self.props), 'world': self.world_initial, 'oplog': self.oplog,
                'violation': None if v is None else {'property': v.prop, 'kind': v.kind, 'signature': v.signature,
                                                     'step': v.step, 'detail': v.detail},
                'event_digest': self.event_digest()}


# --------------------------------------------------------------------------------------------------------------
# Hypothesis glue

RECENT = None                # records of the sessions this worker process ran most recently (process history)
FIRST = []                   # ... and of the first sessions it ran
LAST_SESSION = None          # the session of the most recently executed example (the minimal one after shrinking)
TASK_STATS = None            # Stats of the running task
TASK_DIGEST = None           # running digest over all sessions of the task (determinism self-test)


FIRST_VIOLATION = None       # (record, first sessions, last sessions) at the time the task first saw a violation


def violation_seen(sess):
    global FIRST_VIOLATION
    if FIRST_VIOLATION is None and RECENT is not None:
        FIRST_VIOLATION = (sess.record(), [r for _, r in FIRST], [r for _, r in RECENT])


def session_started(sess):
    global LAST_SESSION
    LAST_SESSION = sess


def session_closed(sess):
    global TASK_DIGEST
    if RECENT is not None:
        rec = (id(sess), {'engine': sess.ENGINE, 'props': sorted(sess.props), 'world': sess.world_initial,
                          'oplog': sess.oplog})
        if len(FIRST) < 6:
            FIRST.append(rec)
        else:
            RECENT.append(rec)
    if TASK_STATS is not None:
        TASK_STATS.merge_json(sess.st.to_json())
    if TASK_DIGEST is not None:
        TASK_DIGEST.update(jdigest([sess.oplog, sess.events]).encode())


def run_machine(machine_cls, seed, max_examples, step_count, shrink_seconds):
    from hypothesis import settings, HealthCheck, Phase, Verbosity, seed as hseed
    from hypothesis.stateful import run_state_machine_as_test
    try:
        from hypothesis.internal.conjecture import engine as hengine
        if hasattr(hengine, 'MAX_SHRINKING_SECONDS'):
            hengine.MAX_SHRINKING_SECONDS = shrink_seconds
    except Exception:       # pragma: no cover
        pass
    s = settings(max_examples=max_examples, stateful_step_count=step_count, database=None, deadline=None,
                 report_multiple_bugs=False, suppress_health_check=list(HealthCheck), print_blob=False,
                 phases=[Phase.generate, Phase.shrink], verbosity=Verbosity.quiet, derandomize=False)
    run_state_machine_as_test(hseed(seed)(machine_cls), settings=s)


def _task(spec):
    """Runs in a forked worker: one Hypothesis machine run with a fixed example budget."""
    global TASK_STATS, TASK_DIGEST, LAST_SESSION, RECENT, FIRST, FIRST_VIOLATION
    FIRST_VIOLATION = None
    from collections import deque
    RECENT = deque(maxlen=5)
    FIRST = []
    engine_mod, prop, tier, k, seed, cfg = spec
    faulthandler.dump_traceback_later(cfg['task_timeout'], exit=True)
    TASK_STATS = Stats()
    TASK_DIGEST = hashlib.blake2b(digest_size=8)
    LAST_SESSION = None
    t0 = time.time()
    out = {'k': k, 'seed': seed, 'status': 'ok'}
    try:
        import importlib
        mod = importlib.import_module(engine_mod)
        machine_cls = mod.make_machine(prop, tier, cfg)
        run_machine(machine_cls, seed, cfg['max_examples'], cfg['step_count'], cfg['shrink_seconds'])
    except Violation:
        out['status'] = 'violation'
        out['record'] = LAST_SESSION.record() if LAST_SESSION is not None else None
        # the sessions this process ran just before: needed when the violation depends on process-wide state
        # (module-level caches) left behind by an earlier session of the same process
        out['prefix_first'] = [r for i, r in FIRST if LAST_SESSION is None or i != id(LAST_SESSION)]
        out['prefix'] = [r for i, r in RECENT if LAST_SESSION is None or i != id(LAST_SESSION)]
        if LAST_SESSION is None or LAST_SESSION.violation is None:
            out['status'] = 'harness'
            out['error'] = 'violation raised but the last executed example holds none:\n' + traceback.format_exc()
    except BaseException as e:      # noqa: harness problems, Flaky included
        name = type(e).__name__
        out['status'] = 'nondeterminism' if 'Flaky' in name else 'harness'
        out['error'] = traceback.format_exc()
        if 'Flaky' in name and FIRST_VIOLATION is not None:
            # Hypothesis re-ran a failing history and it behaved differently: the system under test carries state from
            # one session of this process to the next.  The first violation seen is reported with the process history
            # that preceded it; it only counts if that replays in a fresh interpreter.
            out['status'] = 'violation'
            out['record'], out['prefix_first'], out['prefix'] = FIRST_VIOLATION
            out['flaky'] = True
        notes = getattr(e, '__notes__', None)
        if notes:
            out['error'] += '\n'.join(notes)
        if LAST_SESSION is not None and out['status'] != 'violation':
            out['record'] = LAST_SESSION.record()
    faulthandler.cancel_dump_traceback_later()
    out['stats'] = TASK_STATS.to_json()
    out['digest'] = TASK_DIGEST.hexdigest()
    out['wall'] = time.time() - t0
    return out


def _task_in_own_process(spec, conn):
    try:
        conn.send(_task(spec))
    except BaseException:       # noqa
        conn.send({'k': spec[3], 'seed': spec[4], 'status': 'harness', 'error': traceback.format_exc(),
                   'stats': Stats().to_json(), 'digest': '', 'wall': 0.0})
    finally:
        conn.close()


def run_tasks(engine_mod, prop, tier, cfg, verif_seed, jobs, engine_name):
    """one forked process per task (a task is one simulated process history: nothing leaks from task to task), at most
    `jobs` at a time; results are returned in task order whatever the scheduling"""
    specs = [(engine_mod, prop, tier, k, task_seed(verif_seed, engine_name + ':' + prop, tier, k), cfg)
             for k in range(cfg['tasks'])]
    ctx = multiprocessing.get_context('fork')
    results = {}
    running = {}
    todo = list(specs)
    while todo or running:
        while todo and len(running) < jobs:
            spec = todo.pop(0)
            parent, child = ctx.Pipe(duplex=False)
            proc = ctx.Process(target=_task_in_own_process, args=(spec, child))
            proc.start()
            child.close()
            running[spec[3]] = (proc, parent, spec)
        ready = multiprocessing.connection.wait([c for _, c, _ in running.values()], timeout=1.0)
        for k, (proc, conn, spec) in list(running.items()):
            if conn in ready:
                try:
                    results[k] = conn.recv()
                except EOFError:
                    results[k] = {'k': k, 'seed': spec[4], 'status': 'harness', 'stats': Stats().to_json(), 'digest': '',
                                  'error': f'worker died without a result (exit code {proc.exitcode}: timeout or crash)',
                                  'wall': 0.0}
                proc.join()
                conn.close()
                del running[k]
            elif not proc.is_alive():
                proc.join()
                if conn.poll():
                    # the result arrived between wait() and the liveness test
                    try:
                        results[k] = conn.recv()
                    except EOFError:
                        pass
                if k not in results:
                    results[k] = {'k': k, 'seed': spec[4], 'status': 'harness', 'stats': Stats().to_json(), 'digest': '',
                                  'error': f'worker died without a result (exit code {proc.exitcode}: timeout or crash)',
                                  'wall': 0.0}
                conn.close()
                del running[k]
    return [results[spec[3]] for spec in specs]


# --------------------------------------------------------------------------------------------------------------
# evidence

def write_evidence(prop, tier, verif_seed, total: Stats, results, wall, rule, extra, violations):
    EVIDENCE.mkdir(exist_ok=True)
    seeds = [r['seed'] for r in results if r['seed'] >= 0]
    cov = {
        'evaluations': total.sessions,
        'distinct_nontrivial': len(total.signatures),
        'rule': rule,
        'samples': total.samples or [{'note': 'no non-trivial sample recorded'}],
        'distinct_history_signatures_all': len(total.all_signatures),
        'tasks': len(results),
        'task_seeds_first_last': [seeds[0], seeds[-1]] if seeds else [],
        'runs_per_hour': int(total.sessions / wall * 3600) if wall > 0 else 0,
        'steps_total': total.steps,
        'element_events_total': total.element_events,
        'ops': dict(sorted(total.ops.items())),
        'faults_injected': dict(sorted(total.faults.items())),
        'probes': dict(sorted(total.probes.items())),
        'outcomes': dict(sorted(total.outcomes.items())),
        'discards': dict(sorted(total.discards.items())),
        'notes': dict(sorted(total.notes.items())),
        'known_findings_hit': dict(sorted(total.known_hits.items())),
        'simulated_time': 'n/a - the system under test reads no clock; progress is counted in logical steps',
        'task_digests': jdigest([r['digest'] for r in results]),
    }
    cov.update(extra)
    ev = {'property_id': prop, 'tier': tier, 'seed': verif_seed, 'level': 'exploration', 'coverage': cov,
          'assumptions': extra.get('assumptions', []), 'wall_s': round(wall, 2), 'violations': violations}
    cov.pop('assumptions', None)
    (EVIDENCE / f'{prop}.json').write_text(json.dumps(ev, indent=1, sort_keys=True, default=str))
    return ev

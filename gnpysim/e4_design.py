"""Engine E4 `design`: design / export / crash / reload / redesign histories on a simulated disk.

Real code: loaders, auto-design (designed_network and everything below, incl. estimate_raman_gain), every element's
to_json, network_to_json, save_network / load_network (with YANG conversion), propagate for the probe.
Stubbed: the file system (gnpysim.simdisk, injected as json_io.open), process restart in in-process mode (objects are
dropped and process globals reset; the literal variant runs a child interpreter with a drawn PYTHONHASHSEED).

Served property: C17.
"""
import json
import os
import subprocess
import sys
from copy import deepcopy
from pathlib import Path

import numpy as np
from hypothesis import strategies as st
from hypothesis.stateful import RuleBasedStateMachine, rule, initialize, precondition

from gnpy.tools import json_io
from gnpy.topology.request import compute_constrained_path, propagate

from . import gn, taps, worlds
from .core import SessionBase, Violation, HarnessError, session_started, session_closed, jdigest, VERIF, REPO
from .simdisk import SimDisk, SimCrash
from .taps import TAP, InjectedFault

TOL = {'gain_target': 2e-6, 'tilt_target': 2e-5, 'length': 2e-6, 'loss_coef': 2e-6, 'loss_coef_value': 2e-6}
DEFAULT_TOL = 1e-9


def doc_diff(a, b, path='', key=None, mult=1.0):
    """first difference between two exported documents beyond the export's own rounding, or None"""
    if isinstance(a, bool) or isinstance(b, bool) or a is None or b is None or isinstance(a, str) or isinstance(b, str):
        return None if a == b else f'{path}: {a!r} != {b!r}'
    if isinstance(a, (int, float)) and isinstance(b, (int, float)):
        tol = TOL.get(key, DEFAULT_TOL) * mult
        return None if abs(a - b) <= tol or (a != a and b != b) else f'{path}: {a!r} != {b!r} (tol {tol:g})'
    if type(a) != type(b):
        return f'{path}: type {type(a).__name__} != {type(b).__name__}'
    if isinstance(a, dict):
        if set(a) != set(b):
            return f'{path}: keys differ {sorted(set(a) ^ set(b))}'
        for k in a:
            d = doc_diff(a[k], b[k], f'{path}/{k}', k, mult)
            if d:
                return d
        return None
    if isinstance(a, list):
        if len(a) != len(b):
            return f'{path}: list length {len(a)} != {len(b)}'
        for i, (x, y) in enumerate(zip(a, b)):
            d = doc_diff(x, y, f'{path}[{i}]', key, mult)
            if d:
                return d
        return None
    return None if a == b else f'{path}: {a!r} != {b!r}'


def export_diff(e1, e2, mult=1.0):
    """compare two network exports: same elements (by uid), settings (to rounding) and connections"""
    a = {e['uid']: e for e in e1['elements']}
    b = {e['uid']: e for e in e2['elements']}
    if len(a) != len(e1['elements']) or len(b) != len(e2['elements']):
        return 'duplicate uid in export'
    if set(a) != set(b):
        return f'element sets differ: {sorted(set(a) ^ set(b))[:4]}'
    for uid in a:
        d = doc_diff(a[uid], b[uid], uid, None, mult)
        if d:
            return d
    ca = sorted((c['from_node'], c['to_node']) for c in e1['connections'])
    cb = sorted((c['from_node'], c['to_node']) for c in e2['connections'])
    if ca != cb:
        return f'connections differ: {sorted(set(ca) ^ set(cb))[:4]}'
    return None


class E4Session(SessionBase):
    ENGINE = 'e4'

    def __init__(self, world, props, known=None):
        super().__init__(world, props, known)
        self.disk = SimDisk()
        self.PATH = self.disk.path('design.json')
        self.sim_doc = None
        self.equipment = None
        self.network = None
        self.designed = False
        self.e1 = None              # export of the first design of the initial documents
        self.e_first_redesign = None
        self.rounds = 0
        self.restarts = 0
        self.children = 0
        self.probe_ref = None
        self.loaded_round = None
        self.content_key = {}
        self.fixpoint_waived = False
        self.validated = False

    def world_summary(self):
        return worlds.summary(self.world)

    # ---------------------------------------------------------------------------------------------------------
    def setup(self):
        taps.install()
        TAP.reset()
        json_io.open = self.disk.open
        self._fresh_process()

    def _fresh_process(self):
        """what a new interpreter has: no objects, import-time globals, then the user's sim-params file (if any)"""
        self.equipment = self.network = None
        self.designed = False
        gn.reset_process_globals()
        if self.sim_doc is not None:
            gn.set_sim_params(self.sim_doc)
        self.expected_sim = gn.sim_params_snapshot()

    def _check_sim(self, when):
        now = gn.sim_params_snapshot()
        if now != self.expected_sim:
            raise Violation('C17', 'sim-params-not-as-user-set', f'{when}: expected {self.expected_sim} found {now}')

    def _design_current(self, what):
        """runs auto-design on self.network; returns 'ok' | 'rejected' | 'raised'"""
        before = gn.sim_params_snapshot()
        try:
            self.network, _ = gn.design(self.equipment, self.network)
        except gn.REJECT as e:
            self.network = None
            self.designed = False
            self.st.notes[f'design_rejected:{type(e).__name__}'] += 1
            if gn.sim_params_snapshot() != before:
                self.st.notes['N1_sim_params_left_overwritten_by_aborted_design'] += 1
                gn.set_sim_params(self.sim_doc or {})
            return 'rejected'
        after = gn.sim_params_snapshot()
        if after != before:
            raise Violation('C17', 'design-changed-sim-params', f'{what}: before {before} after {after}')
        self.designed = True
        if any(type(n).__name__ == 'RamanFiber' for n in self.network.nodes()):
            self.st.probes['raman_save_restore_executed'] += 1
        return 'ok'

    # ---------------------------------------------------------------------------------------------------------
    def do_set_sim(self, doc):
        gn.set_sim_params(doc)
        self.sim_doc = doc
        self.expected_sim = gn.sim_params_snapshot()
        self.st.faults['sim_params_change'] += 1
        # auto-design legitimately depends on the parameters in force (SRS estimation): the fixpoint is judged per
        # setting, so the references are dropped and the file on disk becomes stale until the next export
        self.network = None
        self.designed = False
        self.e1 = self.e_first_redesign = self.probe_ref = None
        self.fixpoint_waived = False
        return {'kind': 'set'}

    def do_design(self):
        """design the initial documents (first round, or a later re-design from scratch in the same process)"""
        self._check_sim('before design')
        try:
            self.equipment = gn.load_equipment(self.world)
            self.network = gn.load_network(self.world['topo'], self.equipment)
        except gn.REJECT as e:
            self.discarded = f'world-rejected:{type(e).__name__}'
            return {'kind': 'discarded'}
        if not self.validated:
            # the initial topology goes through the same YANG validation a topology *file* gets when it is loaded
            from gnpy.tools.convert_legacy_yang import yang_to_legacy
            try:
                yang_to_legacy(deepcopy(self.world['topo']))
            except Exception as e:      # noqa: libyang error class is not exported by gnpy
                self.discarded = f'world-rejected-by-yang-validation:{type(e).__name__}'
                return {'kind': 'discarded'}
            self.validated = True
        r = self._design_current('design of the initial documents')
        if r != 'ok':
            if self.e1 is None:
                self.discarded = 'world-rejected-by-design'
            return {'kind': r}
        exp = gn.export(self.network)
        if self.e1 is None:
            self.e1 = exp
            self.rounds = 1
        else:
            # designing the same input twice (independent objects, same process) gives identical output
            if exp != self.e1:
                raise Violation('C17', 'same-input-designed-twice-differs',
                                export_diff(self.e1, exp, 0.0) or 'documents differ in order only')
            self.st.probes['designed_same_input_again'] += 1
        self.loaded_round = None
        self._check_sim('after design')
        return {'kind': 'ok', 'digest': jdigest(exp)}

    def do_failed_design(self, solver_call):
        """a design of the initial documents that dies half-way (exception injected at the k-th call of the Raman/SRS
        solver, which auto-design uses for Raman spans and multiband tilt estimation).  Nothing is judged about the
        aborted design itself (note N1); what it leaves behind must not change what the next design produces."""
        if self.discarded:
            return {'kind': 'skip'}
        self._check_sim('before design')
        try:
            equipment = gn.load_equipment(self.world)
            network = gn.load_network(self.world['topo'], equipment)
        except gn.REJECT:
            return {'kind': 'skip'}
        TAP.arm(solver_fault_at=solver_call)
        try:
            gn.design(equipment, network)
            fired = False
        except InjectedFault:
            fired = True
        except gn.REJECT:
            fired = False
        finally:
            TAP.reset()
        if not fired:
            return {'kind': 'fault-did-not-fire'}
        self.st.faults['design_aborted_in_solver'] += 1
        if gn.sim_params_snapshot() != self.expected_sim:
            self.st.notes['N1_sim_params_left_overwritten_by_aborted_design'] += 1
            gn.reset_process_globals()
            if self.sim_doc is not None:
                gn.set_sim_params(self.sim_doc)
        self.nontrivial = True
        return {'kind': 'aborted'}

    def do_export(self, fault=None):
        if self.discarded or not self.designed:
            return {'kind': 'skip'}
        self._check_sim('before export')
        before = gn.export(self.network)
        self.disk.arm(fault)
        try:
            json_io.save_network(self.network, self.PATH)
            kind = 'ok'
        except OSError as e:
            kind = f'oserror:{e.errno}'
            self.st.faults['disk_' + self.disk.fired] += 1
        except SimCrash:
            kind = 'crash'
            self.st.faults['disk_' + self.disk.fired] += 1
        finally:
            self.disk.disarm()
        if kind == 'crash':
            self.restarts += 1
            self._fresh_process()
            return {'kind': 'crash-during-export'}
        # a failed (or successful) export leaves the process state unchanged
        if gn.export(self.network) != before:
            raise Violation('C17', 'export-changed-the-network', kind)
        self._check_sim('after export')
        if kind == 'ok':
            self.content_key[jdigest(self.disk.read(self.PATH))] = jdigest(self.sim_doc)
            written = json.loads(self.disk.read(self.PATH))
            if written != json.loads(json.dumps(before)):
                raise Violation('C17', 'file-differs-from-exported-network', doc_diff(before, written) or '')
        return {'kind': kind}

    def do_crash_restart(self):
        if self.discarded:
            return {'kind': 'skip'}
        self.restarts += 1
        self.st.faults['crash_restart'] += 1
        self._fresh_process()
        return {'kind': 'restarted'}

    def do_reload_redesign(self, fault=None):
        """load the exported file (real load_network) and design it again"""
        if self.discarded or self.e1 is None:
            return {'kind': 'skip'}
        self._check_sim('before reload')
        if self.equipment is None:
            self.equipment = gn.load_equipment(self.world)
        self.disk.arm(fault)
        try:
            network = json_io.load_network(Path(self.PATH), self.equipment)
        except OSError as e:
            if self.disk.fired:
                self.st.faults['disk_' + self.disk.fired] += 1
            return {'kind': f'load-oserror:{type(e).__name__}'}
        except Exception as e:      # noqa: includes libyang's validation error, JSON errors, loader rejections
            content = self.disk.read(self.PATH)
            if content in self.disk.completed.get(self.PATH, []):
                raise Violation('C17', 'completed-export-cannot-be-reloaded', repr(e)[:300])
            self.st.probes['damaged_file_rejected_loudly'] += 1
            return {'kind': f'load-rejected:{type(e).__name__}'}
        finally:
            self.disk.disarm()
        content = self.disk.read(self.PATH)
        if content not in self.disk.completed.get(self.PATH, []):
            raise Violation('C17', 'reload-accepted-a-file-no-export-completed', f'{len(content)} bytes')
        if self.content_key.get(jdigest(content)) != jdigest(self.sim_doc):
            # the surviving file was exported from a design made under other simulation parameters: auto-design
            # legitimately depends on them, so this reload is not a fixpoint candidate
            return {'kind': 'stale-file'}
        self.network = network
        self.designed = False
        try:
            r = self._design_current('redesign of a reloaded export')
        except Violation:
            raise
        except Exception as e:      # noqa
            self.network = None
            self.designed = False
            gn.set_sim_params(self.sim_doc or {})
            raman = any(el['type'] == 'RamanFiber' for el in self.world['topo']['elements'])
            sig = f'reloaded-export-cannot-be-redesigned:{type(e).__name__}' + (':raman-span' if raman else '')
            if not self.known.is_open('C17', sig):
                raise Violation('C17', sig, repr(e)[:300], signature=sig)
            self.fixpoint_waived = True
            return {'kind': 'known-redesign-failure'}
        if r != 'ok':
            raise Violation('C17', 'reloaded-export-cannot-be-redesigned', r)
        exp = gn.export(self.network)
        self.rounds += 1
        self.st.probes['export_reload_redesign_round'] += 1
        d = None if self.fixpoint_waived else export_diff(self.e1, exp)
        if d:
            sig = 'redesign-of-reloaded-export-differs'
            if self._only_eol_growth(self.e1, exp):
                sig = 'redesign-adds-EOL-to-con_out-again'
            elif self._only_auto_voa_rounding(self.e1, exp):
                sig = 'redesign-corrects-auto-voa-rounded-above-p_max'
            elif self._only_multiband_gain_lowered(self.e1, exp):
                sig = 'redesign-lowers-multiband-gain:gain-mode:srs-estimation-on'
            if sig == 'redesign-of-reloaded-export-differs' or not self.known.is_open('C17', sig):
                raise Violation('C17', sig, f'round {self.rounds}: {d}', signature=sig)
            # known finding: every later round of this session shifts by the same mechanism, so the remaining
            # fixpoint comparisons of this session are waived (worlds outside the finding's signature stay fully judged)
            self.fixpoint_waived = True
            self.st.notes[f'fixpoint_waived_after_known_finding:{sig}'] += 1
        if self.fixpoint_waived:
            pass
        elif self.e_first_redesign is None:
            self.e_first_redesign = exp
        else:
            d = export_diff(self.e_first_redesign, exp)
            if d:
                raise Violation('C17', 'redesign-drifts-round-after-round', f'round {self.rounds}: {d}')
        self._check_sim('after redesign')
        if self.restarts or self.rounds >= 3:
            self.nontrivial = True
        return {'kind': 'fixpoint', 'round': self.rounds}

    def _only_eol_growth(self, e1, e2):
        """the documents differ, the world has EOL != 0 and every fibre's con_out grew by a whole multiple of EOL"""
        eol = self.world['eqpt']['Span'][0].get('EOL', 0)
        if not eol:
            return False
        a = {e['uid']: e for e in e1['elements'] if e['type'] in ('Fiber', 'RamanFiber')}
        b = {e['uid']: e for e in e2['elements'] if e['type'] in ('Fiber', 'RamanFiber')}
        if set(a) != set(b):
            return False
        grew = False
        for uid in a:
            delta = b[uid]['params']['con_out'] - a[uid]['params']['con_out']
            k = delta / eol
            if delta < -1e-9 or abs(k - round(k)) > 1e-9:
                return False
            grew = grew or round(k) > 0
        return grew

    def _only_auto_voa_rounding(self, e1, e2):
        """the library has amplifiers with out_voa_auto, Span.voa_margin < voa_step / 2 (so the automatic VOA can be rounded
        *up* past the p_max limit), and the documents differ only in gain_target / delta_p of amplifiers, by at most half a
        VOA step"""
        span = self.world['eqpt']['Span'][0]
        step, margin = span.get('voa_step', 0.5), span.get('voa_margin', 1)
        if margin >= step / 2 or not any(a.get('out_voa_auto') for a in self.world['eqpt']['Edfa']):
            return False
        a = {e['uid']: e for e in e1['elements']}
        b = {e['uid']: e for e in e2['elements']}
        if set(a) != set(b) or sorted((c['from_node'], c['to_node']) for c in e1['connections']) != \
                sorted((c['from_node'], c['to_node']) for c in e2['connections']):
            return False
        for uid in a:
            if a[uid] == b[uid]:
                continue
            if a[uid]['type'] != 'Edfa':
                return False
            oa, ob = dict(a[uid]['operational']), dict(b[uid]['operational'])
            for k in ('gain_target', 'delta_p'):
                va, vb = oa.pop(k, None), ob.pop(k, None)
                if (va is None) != (vb is None) or (va is not None and abs(va - vb) > step / 2 + 1e-6):
                    return False
            if oa != ob or {k: v for k, v in a[uid].items() if k != 'operational'} != \
                    {k: v for k, v in b[uid].items() if k != 'operational'}:
                return False
        return True

    def _only_multiband_gain_lowered(self, e1, e2):
        """gain mode, Raman/SRS estimation switched on in SimParams, and the documents differ only in the gain_target of
        band amplifiers inside Multiband_amplifier elements, every one of them lower after the redesign (by < 1 dB)"""
        if self.world['eqpt']['Span'][0].get('power_mode', True):
            return False
        if not (self.sim_doc or {}).get('raman_params', {}).get('flag'):
            return False
        a = {e['uid']: e for e in e1['elements']}
        b = {e['uid']: e for e in e2['elements']}
        if set(a) != set(b) or sorted((c['from_node'], c['to_node']) for c in e1['connections']) != \
                sorted((c['from_node'], c['to_node']) for c in e2['connections']):
            return False
        for uid in a:
            if a[uid] == b[uid]:
                continue
            if a[uid]['type'] != 'Multiband_amplifier' or len(a[uid]['amplifiers']) != len(b[uid]['amplifiers']):
                return False
            if {k: v for k, v in a[uid].items() if k != 'amplifiers'} != {k: v for k, v in b[uid].items() if k != 'amplifiers'}:
                return False
            for x, y in zip(a[uid]['amplifiers'], b[uid]['amplifiers']):
                ox, oy = dict(x['operational']), dict(y['operational'])
                gx, gy = ox.pop('gain_target'), oy.pop('gain_target')
                if x['type_variety'] != y['type_variety'] or ox != oy or gx is None or gy is None or \
                        not (-1.0 < gy - gx <= 2e-6):
                    return False
        return True

    def _probe(self):
        sites = self.world['meta']['sites']
        si = self.equipment['SI']['default']
        from gnpy.topology.request import PathRequest
        from gnpy.core.equipment import trx_mode_params
        from gnpy.core.utils import automatic_nch, dbm2watt
        params = {'request_id': 'probe', 'trx_type': '', 'trx_mode': '', 'source': f'trx {sites[0]}',
                  'destination': f'trx {sites[-1]}', 'bidir': False, 'nodes_list': [f'trx {sites[-1]}'],
                  'loose_list': ['STRICT'], 'format': '', 'path_bandwidth': 0, 'effective_freq_slot': None,
                  'nb_channel': automatic_nch(si.f_min, si.f_max, si.spacing), 'power': dbm2watt(si.power_dbm),
                  'tx_power': dbm2watt(si.power_dbm if si.tx_power_dbm is None else si.tx_power_dbm)}
        params.update(trx_mode_params(self.equipment))
        req = PathRequest(**params)
        path = deepcopy(compute_constrained_path(self.network, req))
        propagate(path, req, self.equipment)
        rx = path[-1]
        return {k: np.array(getattr(rx, k), dtype=float) for k in ('snr_01nm', 'osnr_ase_01nm', 'osnr_nli',
                                                                  'chromatic_dispersion', 'pmd', 'pdl', 'latency')}

    def do_probe(self):
        if self.discarded or not self.designed:
            return {'kind': 'skip'}
        self._check_sim('before probe')
        try:
            fig = self._probe()
        except (ValueError, KeyError, StopIteration, IndexError, TypeError) as e:
            self.st.notes[f'probe_not_possible:{type(e).__name__}'] += 1
            return {'kind': 'noprobe'}
        self._check_sim('after probe')
        if self.probe_ref is None:
            self.probe_ref = (None, fig)
            return {'kind': 'reference'}
        if self.fixpoint_waived:
            return {'kind': 'waived'}
        for k, v in fig.items():
            with np.errstate(invalid='ignore'):
                ref = self.probe_ref[1][k]
                bad = ~(np.isclose(v, ref, rtol=1e-6, atol=1e-4) | (np.isinf(v) & np.isinf(ref)) | (np.isnan(v) & np.isnan(ref))) \
                    if v.shape == ref.shape else np.array([True])
            if v.shape != self.probe_ref[1][k].shape or np.any(bad):
                raise Violation('C17', 'saved-design-gives-different-propagation-results',
                                f'{k}: max diff {float(np.nanmax(np.abs(v - self.probe_ref[1][k]))):.3e}')
        self.st.probes['probe_compared'] += 1
        return {'kind': 'same'}

    def do_design_in_child(self, hashseed):
        """the same input designed by a fresh interpreter under another PYTHONHASHSEED gives identical output"""
        if self.discarded or self.e1 is None:
            return {'kind': 'skip'}
        env = dict(os.environ, PYTHONHASHSEED=str(hashseed), PYTHONPATH=f'{REPO}:{VERIF}')
        p = subprocess.run([sys.executable, '-m', 'gnpysim.child'], input=json.dumps({'world': self.world,
                                                                                      'sim': self.sim_doc}),
                           capture_output=True, text=True, env=env, timeout=1500, cwd=str(VERIF))
        if p.returncode != 0:
            raise HarnessError(f'child failed: {p.stderr[-800:]}')
        out = json.loads(p.stdout)
        self.children += 1
        self.st.faults['hash_seed_change'] += 1
        if not out['ok']:
            raise Violation('C17', 'design-fails-under-another-hash-seed', out['error'])
        if out['export'] != json.loads(json.dumps(self.e1)):
            d = export_diff(self.e1, out['export'], 0.0) or 'documents differ in order only'
            sig = 'design-depends-on-hash-seed'
            if 'type_variety' in d:
                sig += ':multiband-type-variety'
            self.st.probes['hash_seed_child_differed'] += 1
            if not self.known.is_open('C17', sig):
                raise Violation('C17', sig, f'PYTHONHASHSEED={hashseed}: {d}', signature=sig)
        self.nontrivial = True
        return {'kind': 'same'}

    def finish(self):
        TAP.reset()
        gn.reset_process_globals()

    def cleanup(self):
        import builtins
        json_io.open = builtins.open
        self.disk.destroy()


# --------------------------------------------------------------------------------------------------------------
SIM_DOCS = [
    {'raman_params': {'flag': True, 'result_spatial_resolution': 50e3, 'solver_spatial_resolution': 500},
     'nli_params': {'method': 'gn_model_analytic'}},
    {'raman_params': {'flag': False, 'method': 'numerical', 'order': 1},
     'nli_params': {'method': 'ggn_approx', 'dispersion_tolerance': 2, 'phase_shift_tolerance': 0.2,
                    'computed_number_of_channels': 3}},
    {'raman_params': {'flag': True, 'result_spatial_resolution': 20e3, 'solver_spatial_resolution': 1e3, 'order': 1},
     'nli_params': {'method': 'gn_model_analytic', 'computed_channels': [1, 2]}},
    {'raman_params': {'flag': True, 'result_spatial_resolution': 50e3, 'solver_spatial_resolution': 500},
     'nli_params': {'method': 'gn_model_analytic', 'dispersion_tolerance': 1, 'phase_shift_tolerance': 0.1,
                    'computed_channels': [1, 3], 'computed_number_of_channels': 2}},
]


def fault_strategy():
    return st.one_of(
        st.none(),
        st.fixed_dictionaries({'kind': st.sampled_from(['enospc', 'eio_write', 'torn_crash', 'lost_crash']),
                               'at': st.integers(0, 6000), 'variant': st.sampled_from(['old', 'empty'])}))


def make_machine(prop, tier, cfg):
    props = {prop}

    @st.composite
    def any_world(draw):
        k = draw(st.integers(0, 5))
        if k in (0, 1, 2):
            w = draw(worlds.world_strategy('small'))
        elif k == 3:
            w = draw(worlds.raman_world_strategy())
        else:
            w = draw(worlds.multiband_world_strategy())
        if draw(st.integers(0, 2)) > 0:
            w['eqpt']['Span'][0]['EOL'] = 0     # EOL != 0 runs into the known finding that waives the fixpoint
        if w['flavour'] == 'small' and draw(st.integers(0, 3)) == 0:
            # amplifiers close to their maximum output power: long spans (large power offsets) and a raised design power
            w['eqpt']['SI'][0]['power_dbm'] = draw(st.sampled_from([1.5, 1.0, 2.0, 1.25, 0.75]))
            w['eqpt']['Span'][0]['power_mode'] = True
            for e in w['topo']['elements']:
                if e['type'] == 'Fiber' and draw(st.integers(0, 3)) > 0:
                    e['params']['length'] = draw(st.sampled_from([140.0, 130.0, 150.0, 120.0, 145.0]))
                    e['params'].pop('lumped_losses', None)
        return w

    class E4Machine(RuleBasedStateMachine):
        def __init__(self):
            super().__init__()
            self.sess = None

        @initialize(world=any_world(), swarm=st.fixed_dictionaries({
            'disk': st.booleans(), 'child': st.integers(0, 3), 'sim': st.booleans(), 'crash': st.booleans()}),
            sim0=st.one_of(st.none(), st.integers(0, len(SIM_DOCS) - 1)))
        def start(self, world, swarm, sim0):
            self.swarm = swarm
            self.sess = E4Session(world, props)
            session_started(self.sess)
            self.sess.boot()
            self.sims = list(range(len(SIM_DOCS)))
            if sim0 is not None and swarm['sim']:
                self.sess.apply('set_sim', {'doc': SIM_DOCS[self.sims[sim0 % len(self.sims)]]})
            self.sess.apply('design', {})

        @rule(fault=fault_strategy())
        def export(self, fault):
            if not self.swarm['disk'] or (fault and 'crash' in fault['kind'] and not self.swarm['crash']):
                fault = None
            self.sess.apply('export', {'fault': fault})

        @rule(read_fault=st.integers(0, 9))
        def reload_redesign(self, read_fault):
            fault = {'kind': 'eio_read'} if self.swarm['disk'] and read_fault == 0 else None
            self.sess.apply('reload_redesign', {'fault': fault})

        @precondition(lambda self: self.swarm['crash'])
        @rule()
        def crash_restart(self):
            self.sess.apply('crash_restart', {})

        @rule()
        def round_trip(self):
            self.sess.apply('export', {'fault': None})
            self.sess.apply('reload_redesign', {'fault': None})

        @rule()
        def probed_round_trip(self):
            # propagation through the designed network, then through the reloaded and redesigned export
            self.sess.apply('probe', {})
            self.sess.apply('export', {'fault': None})
            self.sess.apply('reload_redesign', {'fault': None})
            self.sess.apply('probe', {})

        @rule(n=st.integers(0, 3))
        def design_again(self, n):
            if n == 0:
                self.sess.apply('design', {})

        @rule()
        def probe(self):
            self.sess.apply('probe', {})

        @precondition(lambda self: self.sess is not None and self.sess.world.get('flavour') in ('multiband', 'raman'))
        @rule(k=st.integers(1, 6))
        def failed_design(self, k):
            self.sess.apply('failed_design', {'solver_call': k})

        @precondition(lambda self: self.sess is not None and self.sess.world.get('flavour') in ('multiband', 'raman'))
        @rule(k=st.integers(1, 6), first=st.integers(0, len(SIM_DOCS) - 1), then=st.integers(0, len(SIM_DOCS) - 1))
        def aborted_design_then_other_settings(self, k, first, then):
            # a design dies in the solver under one setting; the operator changes the setting and designs again; what the
            # aborted design left behind must not show in that design nor in the round trip that follows
            self.sess.apply('set_sim', {'doc': SIM_DOCS[first]})
            self.sess.apply('failed_design', {'solver_call': k})
            self.sess.apply('set_sim', {'doc': SIM_DOCS[then]})
            self.sess.apply('design', {})
            self.sess.apply('export', {'fault': None})
            self.sess.apply('reload_redesign', {'fault': None})

        @precondition(lambda self: self.swarm['sim'])
        @rule(which=st.integers(0, len(SIM_DOCS) - 1))
        def set_sim(self, which):
            self.sess.apply('set_sim', {'doc': SIM_DOCS[self.sims[which % len(self.sims)]]})
            self.sess.apply('design', {})

        @precondition(lambda self: self.swarm['child'] == 0 and self.sess is not None and self.sess.children < 1)
        @rule(h=st.integers(1, 400))
        def design_in_child(self, h):
            self.sess.apply('design_in_child', {'hashseed': h})

        def teardown(self):
            if self.sess is not None:
                try:
                    self.sess.close()
                finally:
                    session_closed(self.sess)

    E4Machine.__name__ = f'E4Machine_{prop}'
    return E4Machine


def replay(record, known=None):
    sess = E4Session(record['world'], record['props'], known)
    sess.boot()
    try:
        for op, args in record['oplog']:
            sess.apply(op, args)
    finally:
        sess.close()
    return sess


RULES = {
    'C17': 'one evaluation = one session: generated world (single-band mesh with user amplifiers / VOAs / gain mode, '
           'Raman-span chain, or multiband chain with aliased multiband groups) designed once, then a history of '
           'export (real save_network on a simulated disk; ENOSPC / EIO / torn / lost writes), crash-restart, '
           'reload+redesign (real load_network), design-again, probe propagation, SimParams changes and design in a '
           'child interpreter under a drawn PYTHONHASHSEED. Non-trivial = >= 3 export/reload/redesign rounds, or a '
           'redesign after a restart, or a child with another hash seed; distinct = distinct sequence of (op, outcome).',
}

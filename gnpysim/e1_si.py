"""Engine E1 `si`: histories of the operations elements apply to a SpectralInformation vs a three-power reference model.

Layer 1 (abstract): the real SpectralInformation class driven by drawn sequences of attenuate / gain / add_ase / add_nli /
demux / mux / select, compared operation by operation with per-channel absolute powers (S, A, N) kept as plain floats.
Layer 2 (elements): real designed worlds; every element __call__ on a path is observed through the element tap and the
bookkeeping laws are checked on each event; the same element objects are crossed by successive spectra.

Real code: gnpy.core.info (SpectralInformation, select_channels, demux / mux), all elements, solvers, propagate.
Stubbed: nothing.  Faults: none exist for a value object (stated in evidence); variation comes from op mix and sizes.

Served property: C01.
"""
from copy import deepcopy

import numpy as np
from hypothesis import strategies as st
from hypothesis.stateful import RuleBasedStateMachine, rule, initialize, precondition

from gnpy.core import info
from gnpy.core.info import SpectralInformation, Carrier
from gnpy.core.elements import Transceiver, Roadm, Fused, Fiber, RamanFiber, Edfa, Multiband_amplifier
from gnpy.core.exceptions import SpectrumError, ServiceError
from gnpy.topology.request import PathRequest, compute_constrained_path, propagate
from gnpy.core.equipment import trx_mode_params
from gnpy.core.utils import dbm2watt, automatic_nch

from . import gn, taps, worlds
from .core import SessionBase, Violation, HarnessError, session_started, session_closed, jdigest
from .taps import TAP, InjectedFault

REL = 1e-9


def relerr(a, b):
    a, b = np.asarray(a, dtype=float), np.asarray(b, dtype=float)
    scale = np.maximum(np.maximum(np.abs(a), np.abs(b)), 1e-300)
    return float(np.max(np.abs(a - b) / scale)) if a.size else 0.0


class E1Session(SessionBase):
    ENGINE = 'e1'

    def __init__(self, world, props, known=None):
        super().__init__(world, props, known)
        self.si = None
        self.model = None        # dict: f -> [S, A, N]
        self.aside = []          # list of (SpectralInformation, model dict, snapshot)
        self.noise_then_scale = False
        self.did_noise = False
        self.did_mux = False
        self.out_of_domain = False
        self.tainted = set()

    def world_summary(self):
        return worlds.summary(self.world) if self.world.get('kind') == 'net' else self.world

    # ---------------------------------------------------------------------------------------------------------
    def setup(self):
        if self.world['kind'] == 'comb':
            c = self.world
            n = len(c['frequency'])
            self.si = SpectralInformation(
                frequency=np.array(c['frequency'], dtype=float), baud_rate=np.array(c['baud_rate'], dtype=float),
                slot_width=np.array(c['slot_width'], dtype=float), pch=np.array(c['pch'], dtype=float),
                signal_ratio=np.array(c['signal_ratio'], dtype=float), ase_ratio=np.array(c['ase_ratio'], dtype=float),
                nli_ratio=np.array(c['nli_ratio'], dtype=float), roll_off=np.full(n, 0.15),
                chromatic_dispersion=np.zeros(n), pmd=np.zeros(n), pdl=np.zeros(n), latency=np.zeros(n),
                delta_pdb_per_channel=np.zeros(n), tx_osnr=np.full(n, 40.0), tx_power=np.array(c['pch'], dtype=float),
                label=np.array([f'c{i}' for i in range(n)]))
            self.model = {f: [p * s, p * a, p * x] for f, p, s, a, x in
                          zip(c['frequency'], c['pch'], c['signal_ratio'], c['ase_ratio'], c['nli_ratio'])}
            self._check_si(self.si, self.model, 'initial comb')
        else:
            taps.install()
            TAP.reset()
            gn.reset_process_globals()
            if self.world.get('sim'):
                gn.set_sim_params(self.world['sim'])
            try:
                self.equipment, self.network, _ = gn.fresh_designed(self.world)
            except gn.REJECT as e:
                self.discarded = f'world-rejected:{type(e).__name__}'

    # ---------------------------------------------------------------------------------------------------------
    # invariants on a SpectralInformation, optionally against the model
    def _check_si(self, si, model, when, range_check=True):
        pch = np.array(si.pch, dtype=float)
        sig, ase, nli = np.array(si.signal), np.array(si.ase), np.array(si.nli)
        if np.any(np.abs(sig + ase + nli - pch) > 1e-12 * np.abs(pch)):
            i = int(np.argmax(np.abs(sig + ase + nli - pch) / np.abs(pch)))
            raise Violation('C01', 'shares-do-not-sum-to-channel-power',
                            f'{when}: channel {i}: signal+ase+nli = {sig[i] + ase[i] + nli[i]!r} pch = {pch[i]!r}')
        for name, r in (('signal', si._signal_ratio), ('ase', si._ase_ratio), ('nli', si._nli_ratio)):
            if not range_check:
                break
            r = np.asarray(r, dtype=float)
            if np.any(r < -1e-15) or np.any(r > 1 + 1e-15) or np.any(np.isnan(r)):
                raise Violation('C01', 'share-outside-unit-interval', f'{when}: {name} ratio range '
                                f'[{float(np.nanmin(r))!r}, {float(np.nanmax(r))!r}]')
        with np.errstate(divide='ignore', invalid='ignore'):
            lhs = 1 / np.asarray(si.gsnr, dtype=float)
            rhs = 1 / np.asarray(si.snr_lin, dtype=float) + 1 / np.asarray(si.snr_nli, dtype=float)
        ok = np.isclose(lhs, rhs, rtol=1e-9, atol=0) | (np.isinf(lhs) & np.isinf(rhs))
        if not np.all(ok):
            i = int(np.argmin(ok))
            raise Violation('C01', 'gsnr-identity-broken', f'{when}: channel {i}: 1/gsnr = {lhs[i]!r}, '
                            f'1/snr_ase + 1/snr_nli = {rhs[i]!r}')
        if model is not None:
            freqs = list(np.array(si.frequency, dtype=float))
            if sorted(model) != freqs:
                raise Violation('C01', 'channel-set-differs-from-model', f'{when}: {len(freqs)} channels vs model '
                                f'{len(model)}')
            m = np.array([model[f] for f in freqs])
            if relerr(pch, m.sum(axis=1)) > REL:
                raise Violation('C01', 'channel-power-differs-from-model', f'{when}: rel err {relerr(pch, m.sum(axis=1)):.2e}')
            for k, (name, real) in enumerate((('signal', sig), ('ase', ase), ('nli', nli))):
                # shares that are tiny compared with the channel power carry the absolute error of the total
                err = float(np.max(np.abs(real - m[:, k]) / np.maximum(pch, 1e-300)))
                if err > REL:
                    i = int(np.argmax(np.abs(real - m[:, k]) / np.maximum(pch, 1e-300)))
                    raise Violation('C01', f'{name}-power-differs-from-model',
                                    f'{when}: channel {i}: {name} = {real[i]!r} W, model {m[i, k]!r} W')

    def _check_aside_untouched(self, when):
        for si, model, snap in self.aside:
            now = (np.array(si.pch), np.array(si._signal_ratio), np.array(si._ase_ratio), np.array(si._nli_ratio))
            if any(not np.array_equal(a, b) for a, b in zip(now, snap)):
                raise Violation('C01', 'mutating-one-band-changed-another', f'{when}: a spectrum held aside after a '
                                'band split changed while the other band was processed')

    def _vec(self, v):
        n = self.si.number_of_channels
        if isinstance(v, list):
            return np.array([v[i % len(v)] for i in range(n)], dtype=float)
        return float(v)

    def _scale_model(self, lin):
        lin = np.broadcast_to(lin, (len(self.model),))
        for f, g in zip(sorted(self.model), lin):
            self.model[f] = [x * g for x in self.model[f]]

    def _after(self, when):
        self._check_si(self.si, self.model, when)
        self._check_aside_untouched(when)

    # ---------------------------------------------------------------------------------------------------------
    # layer 1 operations
    def do_att_db(self, v):
        v = self._vec(v)
        self.si.apply_attenuation_db(v)
        self._scale_model(10 ** (-np.asarray(v, dtype=float) / 10))
        self.noise_then_scale = self.noise_then_scale or self.did_noise
        self._after('after attenuate_db')
        return {'kind': 'ok'}

    def do_gain_db(self, v):
        v = self._vec(v)
        self.si.apply_gain_db(v)
        self._scale_model(10 ** (np.asarray(v, dtype=float) / 10))
        self.noise_then_scale = self.noise_then_scale or self.did_noise
        self._after('after gain_db')
        return {'kind': 'ok'}

    def do_att_lin(self, v):
        v = self._vec(v)
        self.si.apply_attenuation_lin(v)
        self._scale_model(np.asarray(v, dtype=float))
        self.noise_then_scale = self.noise_then_scale or self.did_noise
        self._after('after attenuate_lin')
        return {'kind': 'ok'}

    def do_add_ase(self, frac):
        """ASE power added per channel = frac * current channel power"""
        frac = self._vec(frac)
        ase = np.array(self.si.pch, dtype=float) * frac
        self.si.add_ase(ase)
        for f, a in zip(sorted(self.model), np.broadcast_to(ase, (len(self.model),))):
            self.model[f][1] += float(a)
        self.did_noise = True
        self._after('after add_ase')
        return {'kind': 'ok'}

    def do_add_nli(self, frac):
        """NLI power = frac * current channel power, transferred from signal and ASE in proportion (info.py:150)"""
        frac = self._vec(frac)
        nli = np.array(self.si.pch, dtype=float) * frac
        self.si.add_nli(nli)
        for f, x in zip(sorted(self.model), np.broadcast_to(nli, (len(self.model),))):
            s, a, n = self.model[f]
            tot = s + a + n
            self.model[f] = [s - x * s / tot, a - x * a / tot, n + x * (s + a) / tot]
        self.did_noise = True
        self._after('after add_nli')
        return {'kind': 'ok'}

    def do_demux(self, lo, hi):
        """split at channel indices [lo, hi]: keep the inner band as the current spectrum, hold the rest aside"""
        n = self.si.number_of_channels
        lo, hi = lo % n, hi % n
        lo, hi = min(lo, hi), max(lo, hi)
        f = np.array(self.si.frequency, dtype=float)
        w = np.array(self.si.slot_width, dtype=float)
        total_before = float(np.sum(self.si.pch))
        bands = []
        if lo > 0:
            bands.append(('rest', {'f_min': f[0] - w[0], 'f_max': f[lo - 1] + w[lo - 1] / 2}))
        bands.append(('keep', {'f_min': f[lo] - w[lo] / 2, 'f_max': f[hi] + w[hi] / 2}))
        if hi < n - 1:
            bands.append(('rest', {'f_min': f[hi + 1] - w[hi + 1] / 2, 'f_max': f[-1] + w[-1]}))
        parent = self.si
        parts = []
        for role, band in bands:
            part = info.demuxed_spectral_information(parent, band)
            if part is None:
                raise Violation('C01', 'band-split-lost-channels', f'band {band} of a {n}-channel comb came out empty')
            parts.append((role, part))
        if sum(p.number_of_channels for _, p in parts) != n:
            raise Violation('C01', 'band-split-lost-or-duplicated-channels',
                            f'{[p.number_of_channels for _, p in parts]} channels out of {n}')
        total_after = sum(float(np.sum(p.pch)) for _, p in parts)
        if abs(total_after - total_before) > 1e-12 * total_before:
            raise Violation('C01', 'band-split-changed-total-power', f'{total_before!r} -> {total_after!r}')
        for role, part in parts:
            model = {fr: list(self.model[fr]) for fr in np.array(part.frequency, dtype=float)}
            self._check_si(part, model, 'after demux')
            if role == 'keep':
                keep = (part, model)
            else:
                snap = (np.array(part.pch), np.array(part._signal_ratio), np.array(part._ase_ratio),
                        np.array(part._nli_ratio))
                self.aside.append((part, model, snap))
        # the parent stays around: it must not change when the child is processed
        snap = (np.array(parent.pch), np.array(parent._signal_ratio), np.array(parent._ase_ratio),
                np.array(parent._nli_ratio))
        self.parents = getattr(self, 'parents', [])
        self.parents.append((parent, snap))
        self.si, self.model = keep
        return {'kind': f'split:{len(parts)}'}

    def do_mux(self, order):
        if not self.aside:
            return {'kind': 'nothing-aside'}
        for parent, snap in getattr(self, 'parents', []):
            now = (np.array(parent.pch), np.array(parent._signal_ratio), np.array(parent._ase_ratio),
                   np.array(parent._nli_ratio))
            if any(not np.array_equal(a, b) for a, b in zip(now, snap)):
                raise Violation('C01', 'processing-a-band-changed-the-parent-spectrum', 'parent of a band split changed')
        self.parents = []
        parts = [(self.si, self.model)] + [(s, m) for s, m, _ in self.aside]
        total_before = sum(float(np.sum(p.pch)) for p, _ in parts)
        idx = sorted(range(len(parts)), key=lambda i: order[i % len(order)] * 10 + i)
        merged = info.muxed_spectral_information([parts[i][0] for i in idx])
        model = {}
        for _, m in parts:
            model.update(m)
        if abs(float(np.sum(merged.pch)) - total_before) > 1e-12 * total_before:
            raise Violation('C01', 'band-merge-changed-total-power', f'{total_before!r} -> {float(np.sum(merged.pch))!r}')
        self.si, self.model, self.aside = merged, model, []
        self.did_mux = True
        self._after('after mux')
        return {'kind': f'merged:{len(parts)}'}

    def do_select_copy(self):
        n = self.si.number_of_channels
        copy = info.select_channels(self.si, np.ones(n, dtype=bool))
        self._check_si(copy, self.model, 'after select_channels')
        old = self.si
        snap = (np.array(old.pch), np.array(old._signal_ratio))
        copy.apply_attenuation_db(3.0)
        copy.add_ase(np.array(copy.pch) * 0.01)
        if not np.array_equal(np.array(old.pch), snap[0]) or not np.array_equal(np.array(old._signal_ratio), snap[1]):
            raise Violation('C01', 'selected-copy-shares-arrays-with-its-source', 'mutating the copy changed the source')
        return {'kind': 'ok'}

    # ---------------------------------------------------------------------------------------------------------
    # layer 2: real elements observed through the tap
    def _observer(self, phase, el, si, pre):
        if phase == 'pre':
            if si is None:
                return None
            if isinstance(el, Fiber) and float(np.max(si.pch)) > 1e-2:
                # more than +10 dBm per channel enters a fibre: outside the domain the property states (the first-order
                # NLI estimate may exceed the channel power there); the range clause is not judged for this propagation
                if not self.out_of_domain:
                    self.st.probes['propagation_left_the_+10dBm_domain'] += 1
                self.out_of_domain = True
            return {'f': np.array(si.frequency, dtype=float), 'pch': np.array(si.pch, dtype=float),
                    'sig': np.array(si.signal, dtype=float), 'ase': np.array(si.ase, dtype=float),
                    'nli': np.array(si.nli, dtype=float)}
        self.st.element_events += 1
        name = type(el).__name__
        self.seen_types.add(name)
        self.st.probes[f'element_event:{name}'] += 1
        when = f'after {name} {el.uid}'
        if self.out_of_domain:
            # shares may be negative / larger than one here, and their sum then cancels catastrophically in floating
            # point: nothing of the property is judged for the rest of this propagation
            return None
        self._check_si(si, None, when)
        if pre is None or self.out_of_domain:
            return None
        fo = np.array(si.frequency, dtype=float)
        keep = np.isin(pre['f'], fo)
        if not np.array_equal(pre['f'][keep], fo):
            raise Violation('C01', 'element-changed-the-channel-set', f'{when}: {len(pre["f"])} -> {len(fo)} channels')
        sig_i, ase_i, nli_i = pre['sig'][keep], pre['ase'][keep], pre['nli'][keep]
        sig_o, ase_o, nli_o = np.array(si.signal), np.array(si.ase), np.array(si.nli)
        with np.errstate(divide='ignore', invalid='ignore'):
            g = sig_o / sig_i
        tiny = 1e-9
        if isinstance(el, (Roadm, Fused, Transceiver)):
            # pure scaling: all three powers move by the same factor
            for nm, i_, o_ in (('ase', ase_i, ase_o), ('nli', nli_i, nli_o)):
                if np.any(np.abs(o_ - i_ * g) > tiny * np.maximum(o_, sig_o * 1e-6)):
                    raise Violation('C01', 'passive-element-changed-the-power-split', f'{when}: {nm} share moved')
        elif isinstance(el, Edfa):
            # ASE is added, then one gain is applied to everything: NLI follows the signal, ASE can only exceed it
            if np.any(np.abs(nli_o - nli_i * g) > tiny * np.maximum(nli_o, sig_o * 1e-9)):
                raise Violation('C01', 'amplifier-scaled-nli-differently-from-signal', when)
            if np.any(ase_o < ase_i * g * (1 - tiny)):
                raise Violation('C01', 'amplifier-lost-ase-power', when)
            self.amp_seen = True
        elif isinstance(el, Fiber):
            # NLI is a transfer out of signal and ASE in proportion: the ASE/signal ratio of a plain fibre is unchanged,
            # NLI relative to signal can only grow (RamanFiber additionally adds ASE)
            if not isinstance(el, RamanFiber):
                if np.any(np.abs(ase_o - ase_i * g) > tiny * np.maximum(ase_o, sig_o * 1e-9)):
                    raise Violation('C01', 'fibre-changed-the-ase-to-signal-ratio', when)
            elif np.any(ase_o < ase_i * g * (1 - tiny)):
                raise Violation('C01', 'raman-fibre-lost-ase-power', when)
            if np.any(nli_o < nli_i * g * (1 - tiny)):
                raise Violation('C01', 'fibre-lost-nli-power', when)
            self.fiber_seen = True
        if isinstance(el, Multiband_amplifier):
            self.st.probes['multiband_mux_demux_executed'] += 1
        return None

    def _check_reported(self, trx, when=''):
        """the figures a transceiver *reports* obey 1/GSNR = 1/OSNR_ASE + 1/SNR_NLI"""
        if getattr(trx, 'snr', None) is None:
            return
        shapes = {np.shape(np.array(getattr(trx, a), dtype=float)) for a in ('snr', 'osnr_ase', 'osnr_nli')}
        if len(shapes) != 1:
            raise Violation('C01', 'reported-figures-have-different-channel-counts' + when, f'{trx.uid}: {sorted(shapes)}')
        with np.errstate(divide='ignore', invalid='ignore', over='ignore'):
            l_ = 10 ** (-np.array(trx.snr, dtype=float) / 10)
            r_ = 10 ** (-np.array(trx.osnr_ase, dtype=float) / 10) + 10 ** (-np.array(trx.osnr_nli, dtype=float) / 10)
        if not np.allclose(l_, r_, rtol=1e-6, atol=0):
            raise Violation('C01', 'reported-figures-break-gsnr-identity' + when,
                            f'{trx.uid}: GSNR {np.round(np.array(trx.snr, dtype=float)[:2], 3)} OSNR_ASE '
                            f'{np.round(np.array(trx.osnr_ase, dtype=float)[:2], 3)} SNR_NLI '
                            f'{np.round(np.array(trx.osnr_nli, dtype=float)[:2], 3)}')

    def do_propagate(self, src, dst, spec, copy, reuse=False, fault_at=None):
        if self.discarded:
            return {'kind': 'discarded'}
        key = jdigest([src, dst, spec])
        sites = self.world['meta']['sites']
        a, b = sites[src % len(sites)], sites[dst % len(sites)]
        if a == b:
            b = sites[(dst + 1) % len(sites)]
        si = self.equipment['SI']['default']
        params = {'request_id': 'p', 'trx_type': '', 'trx_mode': '', 'source': f'trx {a}', 'destination': f'trx {b}',
                  'bidir': False, 'nodes_list': [f'trx {b}'], 'loose_list': ['STRICT'], 'format': '',
                  'path_bandwidth': 0, 'effective_freq_slot': None,
                  'nb_channel': automatic_nch(si.f_min, si.f_max, si.spacing), 'power': dbm2watt(spec['power_dbm']),
                  'tx_power': dbm2watt(spec['power_dbm'])}
        params.update(trx_mode_params(self.equipment))
        req = PathRequest(**params)
        req.initial_spectrum = None
        if reuse and getattr(self, 'last_req', (None, None))[0] == key:
            # the very same request object is propagated again (power sweeps and re-propagations do this)
            req = self.last_req[1]
            self.st.probes['request_object_propagated_again'] += 1
            spec = dict(spec, carriers=[])
        self.last_req = (key, req)
        if spec['carriers']:
            f0 = si.f_min + 100e9
            spectrum = {}
            f = f0
            for k in range(spec['n']):
                baud, slot, dp = spec['carriers'][k % len(spec['carriers'])]
                f += slot / 2
                if f + slot / 2 > si.f_max:
                    break
                spectrum[f] = Carrier(delta_pdb=dp, baud_rate=baud, slot_width=slot, roll_off=0.15, tx_osnr=40,
                                      tx_power=dbm2watt(spec['power_dbm']), label=f'{baud * 1e-9:.0f}G')
                f += slot / 2
            if spectrum:
                req.initial_spectrum = spectrum
                req.nb_channel = len(spectrum)
        try:
            path = compute_constrained_path(self.network, req)
        except Exception as e:      # noqa
            return {'kind': f'nopath:{type(e).__name__}'}
        if not path:
            return {'kind': 'nopath'}
        if copy:
            path = deepcopy(path)
        self.seen_types = set()
        self.amp_seen = self.fiber_seen = False
        self.out_of_domain = False
        TAP.arm(observer=self._observer, fault_at=fault_at)
        try:
            propagate(path, req, self.equipment)
        except InjectedFault:
            # a propagation that dies inside an element: whatever the transceivers at both ends report afterwards
            # (figures of an earlier propagation) still obeys the identity
            self.st.faults['propagation_aborted_inside_an_element'] += 1
            ends_had = [t.uid for t in (path[0], path[-1]) if getattr(t, 'snr', None) is not None]
            if ends_had:
                self.st.probes['aborted_propagation_at_a_transceiver_holding_figures'] += 1
            if not self.out_of_domain:
                for trx in (path[0], path[-1]):
                    # figures left by an earlier propagation that had left the property's domain are not judged
                    if trx.uid not in self.tainted:
                        self._check_reported(trx, ':after-aborted-propagation')
            return {'kind': 'aborted'}
        except (ValueError, SpectrumError, ServiceError, IndexError, TypeError, KeyError) as e:
            self.st.notes[f'propagation_refused:{type(e).__name__}'] += 1
            return {'kind': f'refused:{type(e).__name__}'}
        finally:
            TAP.reset()
        if fault_at is not None:
            self.st.notes['armed_fault_did_not_fire'] += 1
        if not copy:
            for trx in (path[0], path[-1]):
                (self.tainted.add if self.out_of_domain else self.tainted.discard)(trx.uid)
        if self.out_of_domain:
            return {'kind': 'left-the-domain-of-the-property'}
        # the figures every transceiver on the path *reports* (source included) obey the identity
        for trx in (path[0], path[-1]):
            self._check_reported(trx)
        rx = path[-1]
        with np.errstate(divide='ignore', invalid='ignore'):
            lhs = 10 ** (-np.array(rx.raw_snr, dtype=float) / 10)
            rhs = 10 ** (-np.array(rx.raw_osnr_ase, dtype=float) / 10) + 10 ** (-np.array(rx.raw_osnr_nli, dtype=float) / 10)
            lhs01 = 10 ** (-np.array(rx.raw_snr_01nm, dtype=float) / 10)
            rhs01 = 10 ** (-np.array(rx.raw_osnr_ase_01nm, dtype=float) / 10) + \
                10 ** (-(np.array(rx.raw_osnr_nli, dtype=float) - 10 * np.log10(12.5e9 / np.array(rx.baud_rate))) / 10)
        if not np.allclose(lhs, rhs, rtol=1e-6, atol=0) or not np.allclose(lhs01, rhs01, rtol=1e-6, atol=0):
            raise Violation('C01', 'receiver-figures-break-gsnr-identity',
                            f'{rx.uid}: 1/GSNR vs 1/OSNR_ASE + 1/SNR_NLI differ by up to '
                            f'{float(np.max(np.abs(lhs / rhs - 1))):.2e} (relative)')
        if self.amp_seen and self.fiber_seen:
            self.nontrivial = True
        return {'kind': 'ok:' + '+'.join(sorted(self.seen_types)), 'gsnr': jdigest([round(float(x), 9) for x in rx.raw_snr])}

    def do_propagate_auto(self, src, dst, trx, spacing, nch):
        """the receiver figures are recomputed once per candidate mode on the same propagation result (automatic mode
        selection): what the transceivers report afterwards must still obey the identity"""
        if self.discarded:
            return {'kind': 'discarded'}
        from gnpy.tools.json_io import requests_from_json
        from gnpy.topology.request import propagate_and_optimize_mode, correct_json_route_list
        sites = self.world['meta']['sites']
        a, b = sites[src % len(sites)], sites[dst % len(sites)]
        if a == b:
            b = sites[(dst + 1) % len(sites)]
        trxs = [t['type_variety'] for t in self.world['eqpt']['Transceiver']]
        name = trxs[trx % len(trxs)]
        doc = {'path-request': [{
            'request-id': 'auto', 'source': f'trx {a}', 'destination': f'trx {b}', 'src-tp-id': f'trx {a}',
            'dst-tp-id': f'trx {b}', 'bidirectional': False,
            'path-constraints': {'te-bandwidth': {'technology': 'flexi-grid', 'trx_type': name, 'trx_mode': None,
                                                  'effective-freq-slot': [{'N': None, 'M': None}], 'spacing': spacing,
                                                  'max-nb-of-channel': nch, 'output-power': None,
                                                  'path_bandwidth': 100e9}}}]}
        try:
            req = correct_json_route_list(self.network, requests_from_json(doc, self.equipment))[0]
            req.nodes_list.append(req.destination)
            req.loose_list.append('STRICT')
            path = deepcopy(compute_constrained_path(self.network, req))
        except Exception as e:      # noqa
            return {'kind': f'norequest:{type(e).__name__}'}
        if not path:
            return {'kind': 'nopath'}
        self.seen_types = set()
        self.amp_seen = self.fiber_seen = False
        self.out_of_domain = False
        TAP.arm(observer=self._observer)
        try:
            path, mode = propagate_and_optimize_mode(path, req, self.equipment)
        except (ValueError, SpectrumError, ServiceError, IndexError, TypeError, KeyError) as e:
            self.st.notes[f'propagation_refused:{type(e).__name__}'] += 1
            return {'kind': f'refused:{type(e).__name__}'}
        finally:
            TAP.reset()
        if not path or self.out_of_domain:
            return {'kind': 'nothing-to-judge'}
        self.st.probes['automatic_mode_selection_judged'] += 1
        for trx_el in (path[0], path[-1]):
            if getattr(trx_el, 'snr', None) is None:
                continue
            shapes = {np.shape(np.array(getattr(trx_el, k), dtype=float)) for k in ('snr', 'osnr_ase', 'osnr_nli')}
            if len(shapes) != 1:
                raise Violation('C01', 'reported-figures-have-different-channel-counts', f'{trx_el.uid}: {sorted(shapes)}')
            with np.errstate(divide='ignore', invalid='ignore', over='ignore'):
                l_ = 10 ** (-np.array(trx_el.snr, dtype=float) / 10)
                r_ = 10 ** (-np.array(trx_el.osnr_ase, dtype=float) / 10) + \
                    10 ** (-np.array(trx_el.osnr_nli, dtype=float) / 10)
            if not np.allclose(l_, r_, rtol=1e-6, atol=0, equal_nan=True):
                raise Violation('C01', 'reported-figures-break-gsnr-identity-after-mode-selection',
                                f'{trx_el.uid} (mode {mode["format"] if mode else None}): GSNR '
                                f'{np.round(np.array(trx_el.snr, dtype=float)[:2], 3)} OSNR_ASE '
                                f'{np.round(np.array(trx_el.osnr_ase, dtype=float)[:2], 3)} SNR_NLI '
                                f'{np.round(np.array(trx_el.osnr_nli, dtype=float)[:2], 3)}')
        return {'kind': 'auto:' + (mode['format'] if mode else 'none')}

    def finish(self):
        if self.world['kind'] == 'comb':
            if self.noise_then_scale and self.did_mux:
                self.nontrivial = True
        else:
            TAP.reset()
            gn.reset_process_globals()


# --------------------------------------------------------------------------------------------------------------
@st.composite
def comb_strategy(draw):
    n = draw(st.integers(1, 40))
    f = 191.3e12
    freq, baud, slot, pch, sr, ar, nr = [], [], [], [], [], [], []
    kinds = draw(st.lists(st.sampled_from([(32e9, 50e9), (32e9, 37.5e9), (64e9, 75e9), (44e9, 62.5e9), (90e9, 100e9)]),
                          min_size=1, max_size=3))
    gaps = draw(st.lists(st.sampled_from([0.0, 0.0, 12.5e9, 100e9]), min_size=1, max_size=4))
    pows = draw(st.lists(st.floats(-40.0, 10.0, allow_nan=False), min_size=1, max_size=4))
    noise = draw(st.lists(st.tuples(st.sampled_from([0.0, 1e-4, 0.02, 0.2]), st.sampled_from([0.0, 1e-5, 0.01, 0.15])),
                          min_size=1, max_size=3))
    for i in range(n):
        b, s = kinds[i % len(kinds)]
        f += s / 2 + gaps[i % len(gaps)]
        freq.append(f)
        f += s / 2
        baud.append(b)
        slot.append(s)
        pch.append(1e-3 * 10 ** (pows[i % len(pows)] / 10))
        a, x = noise[i % len(noise)]
        ar.append(a)
        nr.append(x)
        sr.append(1.0 - a - x)
    order = draw(st.permutations(list(range(n)))) if draw(st.booleans()) else list(range(n))
    pick = lambda xs: [xs[i] for i in order]      # noqa: E731
    return {'kind': 'comb', 'frequency': pick(freq), 'baud_rate': pick(baud), 'slot_width': pick(slot),
            'pch': pick(pch), 'signal_ratio': pick(sr), 'ase_ratio': pick(ar), 'nli_ratio': pick(nr)}


def vec(elem, scalar_ok=True):
    lst = st.lists(elem, min_size=1, max_size=5)
    return st.one_of(elem, lst) if scalar_ok else lst


def make_machine(prop, tier, cfg):
    props = {prop}

    @st.composite
    def any_world(draw):
        k = draw(st.integers(0, 9))
        if k < 7:
            return draw(comb_strategy())
        if k == 7:
            return draw(worlds.multiband_world_strategy())
        if k == 8 and draw(st.booleans()):
            w = draw(worlds.raman_world_strategy())
            # a RamanFiber can only be propagated with the Raman solver switched on
            w['sim'] = {'raman_params': {'flag': True, 'result_spatial_resolution': 10e3,
                                         'solver_spatial_resolution': 500}, 'nli_params': {}}
            return w
        return draw(worlds.world_strategy('small'))

    class E1Machine(RuleBasedStateMachine):
        def __init__(self):
            super().__init__()
            self.sess = None

        @initialize(world=any_world())
        def start(self, world):
            self.layer = 1 if world['kind'] == 'comb' else 2
            self.sess = E1Session(world, props)
            session_started(self.sess)
            self.sess.boot()

        @precondition(lambda self: self.layer == 1)
        @rule(v=vec(st.floats(-3.0, 30.0, allow_nan=False)))
        def att_db(self, v):
            self.sess.apply('att_db', {'v': v})

        @precondition(lambda self: self.layer == 1)
        @rule(v=vec(st.floats(-3.0, 35.0, allow_nan=False)))
        def gain_db(self, v):
            self.sess.apply('gain_db', {'v': v})

        @precondition(lambda self: self.layer == 1)
        @rule(v=vec(st.floats(1e-4, 1.5, allow_nan=False)))
        def att_lin(self, v):
            self.sess.apply('att_lin', {'v': v})

        @precondition(lambda self: self.layer == 1)
        @rule(v=vec(st.sampled_from([0.0, 1e-6, 1e-3, 0.05, 0.5, 3.0])))
        def add_ase(self, v):
            self.sess.apply('add_ase', {'frac': v})

        @precondition(lambda self: self.layer == 1)
        @rule(v=vec(st.sampled_from([0.0, 1e-7, 1e-4, 0.01, 0.1, 0.3])))
        def add_nli(self, v):
            self.sess.apply('add_nli', {'frac': v})

        @precondition(lambda self: self.layer == 1)
        @rule(lo=st.integers(0, 39), hi=st.integers(0, 39))
        def demux(self, lo, hi):
            self.sess.apply('demux', {'lo': lo, 'hi': hi})

        @precondition(lambda self: self.layer == 1 and self.sess is not None and self.sess.aside)
        @rule(order=st.lists(st.integers(0, 5), min_size=1, max_size=6))
        def mux(self, order):
            self.sess.apply('mux', {'order': order})

        @precondition(lambda self: self.layer == 1)
        @rule()
        def select_copy(self):
            self.sess.apply('select_copy', {})

        @precondition(lambda self: self.layer == 2)
        @rule(src=st.integers(0, 5), dst=st.integers(0, 5), copy=st.booleans(),
              power=st.sampled_from([0.0, -3.0, 3.0, 6.0, 10.0, -10.0]), n=st.integers(1, 40),
              carriers=st.lists(st.tuples(st.sampled_from([32e9, 64e9, 44e9]), st.sampled_from([50e9, 75e9, 100e9]),
                                          st.sampled_from([0.0, 1.0, -2.0, 3.0])).filter(lambda t: t[0] <= t[1]),
                                max_size=3))
        def propagate(self, src, dst, copy, power, n, carriers):
            self.sess.apply('propagate', {'src': src, 'dst': dst, 'copy': copy,
                                          'spec': {'power_dbm': power, 'n': n, 'carriers': [list(c) for c in carriers]}})

        @precondition(lambda self: self.layer == 2 and self.sess is not None and self.sess.oplog
                      and self.sess.oplog[-1][0] in ('propagate', 'propagate_auto'))
        @rule(src=st.integers(0, 5), fault_at=st.integers(1, 12), power=st.sampled_from([0.0, 3.0, -3.0]))
        def propagate_back_and_abort(self, src, fault_at, power):
            # the receiver of the last propagation becomes the source of one that dies inside an element
            last = self.sess.oplog[-1][1]
            self.sess.apply('propagate', {'src': last['dst'], 'dst': last['src'] if src == 0 else src, 'copy': False,
                                          'spec': {'power_dbm': power, 'n': 1, 'carriers': []}, 'fault_at': fault_at})

        @precondition(lambda self: self.layer == 2)
        @rule(src=st.integers(0, 5), dst=st.integers(0, 5), trx=st.integers(0, 5),
              spacing=st.sampled_from([50e9, 75e9, 62.5e9, 100e9]), nch=st.sampled_from([None, 20, 10, 40]))
        def propagate_auto(self, src, dst, trx, spacing, nch):
            self.sess.apply('propagate_auto', {'src': src, 'dst': dst, 'trx': trx, 'spacing': spacing, 'nch': nch})

        @precondition(lambda self: self.layer == 2 and self.sess is not None and self.sess.oplog
                      and self.sess.oplog[-1][0] == 'propagate')
        @rule(copy=st.booleans())
        def propagate_again(self, copy):
            args = dict(self.sess.oplog[-1][1])
            args.update({'copy': copy, 'reuse': True})
            self.sess.apply('propagate', args)

        def teardown(self):
            if self.sess is not None:
                try:
                    self.sess.close()
                finally:
                    session_closed(self.sess)

    E1Machine.__name__ = f'E1Machine_{prop}'
    return E1Machine


def replay(record, known=None):
    sess = E1Session(record['world'], record['props'], known)
    sess.boot()
    for op, args in record['oplog']:
        sess.apply(op, args)
    sess.close()
    return sess


RULES = {
    'C01': 'one evaluation = one session. 70 %: abstract layer - a drawn comb (1-40 channels, mixed baud rate / slot width / '
           'power -40..+10 dBm, optional pre-existing ASE/NLI, shuffled input order) then a history of attenuate_db / gain_db '
           '/ attenuate_lin / add_ase / add_nli (<= 0.3 pch) / demux / mux / select on the real SpectralInformation, '
           'compared with per-channel absolute powers after every operation. 30 %: element layer - a generated designed '
           'world (single-band mesh or C+L multiband chain); 1-N successive spectra (flat or mixed carriers, -10..+10 dBm) '
           'propagated through the same element objects or copies, bookkeeping laws checked at every element event. '
           'Non-trivial = (abstract) a noise addition followed by a scaling and a demux+mux, or (elements) a propagation '
           'that crossed an amplifier and a fibre; distinct = distinct sequence of (op, outcome kinds).',
}

"""Fresh-interpreter worker: designs a world under the PYTHONHASHSEED it was started with and prints the export."""
import json
import logging
import sys
import warnings


def main():
    logging.disable(logging.CRITICAL)
    warnings.filterwarnings('ignore')
    job = json.loads(sys.stdin.read())
    from gnpysim import gn
    gn.reset_process_globals()
    if job.get('sim'):
        gn.set_sim_params(job['sim'])
    try:
        _, network, _ = gn.fresh_designed(job['world'])
        out = {'ok': True, 'export': gn.export(network), 'sim_after': gn.sim_params_snapshot()}
    except Exception as e:      # noqa
        out = {'ok': False, 'error': repr(e)}
    sys.stdout.write(json.dumps(out))


if __name__ == '__main__':
    main()

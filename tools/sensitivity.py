#!/venv/bin/python
"""Sensitivity (mutation) run: apply hand-written property-breaking edits to a scratch worktree of /repo (outside /repo and
/verif), run the matching quick check against it (GNPY_SRC=<worktree>) and report which are caught.

    tools/sensitivity.py [--only C14] [--suite]     (--suite also runs the repository test suite on each mutant)

Not registered in MANIFEST.json; results are summarised in DESIGN.md 10.6.
"""
import argparse
import json
import os
import subprocess
import sys
from pathlib import Path

VERIF = Path(__file__).resolve().parent.parent
WT = Path('/tmp/gnpysim-sens-wt')

M = []


def mut(prop, name, file, old, new):
    M.append({'prop': prop, 'name': name, 'file': file, 'old': old, 'new': new})


# ---- C01
mut('C01', 'add_ase forgets to rescale NLI', 'gnpy/core/info.py',
    "        self._nli_ratio *= self.pch / pch\n", "")
mut('C01', 'add_nli forgets to rescale ASE', 'gnpy/core/info.py',
    "        self._ase_ratio *= (1 - nli_ratio)\n", "")
mut('C01', 'select_channels takes ase from nli', 'gnpy/core/info.py',
    "ase_ratio=spectrum._ase_ratio[select],", "ase_ratio=spectrum._nli_ratio[select],")
mut('C01', '__add__ appends ase shares in the wrong order', 'gnpy/core/info.py',
    "ase_ratio=append(self._ase_ratio, other._ase_ratio),", "ase_ratio=append(other._ase_ratio, self._ase_ratio),")
mut('C01', 'select_channels shares the pch array with its source', 'gnpy/core/info.py',
    "slot_width=spectrum.slot_width[select], pch=spectrum.pch[select],",
    "slot_width=spectrum.slot_width[select], pch=spectrum._pch if select.all() else spectrum.pch[select],")
# ---- C13
mut('C13', 'update_snr accumulates on the previous snr instead of the raw value', 'gnpy/core/elements.py',
    "        self.snr_01nm = snr_sum(self.raw_snr_01nm, 12.5e9, snr_added)",
    "        self.snr_01nm = snr_sum(self.snr_01nm, 12.5e9, snr_added)")
mut('C13', 'tx osnr kept in the roadm osnr list across modes', 'gnpy/topology/request.py',
    "                    del roadm_osnr[-1]\n", "")
mut('C13', 'fixed-mode verdict ignores the system margin', 'gnpy/topology/request.py',
    "                if round(snr01nm_with_penalty[min_ind], 2) < pathreq.OSNR + equipment['SI']['default'].sys_margins:\n"
    "                    msg = f'\\tWarning! Request {pathreq.request_id} computed path from' \\\n"
    "                        + f' {pathreq.source} to {pathreq.destination} does not pass with {pathreq.tsp_mode}'",
    "                if round(snr01nm_with_penalty[min_ind], 2) < pathreq.OSNR:\n"
    "                    msg = f'\\tWarning! Request {pathreq.request_id} computed path from' \\\n"
    "                        + f' {pathreq.source} to {pathreq.destination} does not pass with {pathreq.tsp_mode}'")
mut('C13', 'impairment above the penalty table costs nothing', 'gnpy/core/elements.py',
    "left=float('inf'), right=float('inf'))", "left=float('inf'), right=boundary_list['penalty_value'][-1])")
mut('C13', 'modes explored lowest bit rate first', 'gnpy/topology/request.py',
    "key=lambda x: (x['bit_rate'], x['equalization_offset_db']), reverse=True)",
    "key=lambda x: (-x['bit_rate'], x['equalization_offset_db']), reverse=True)")
mut('C13', 'reverse direction verdict uses the forward receiver', 'gnpy/topology/request.py',
    "                snr01nm_with_penalty = rev_p[-1].snr_01nm - rev_p[-1].total_penalty",
    "                snr01nm_with_penalty = total_path[-1].snr_01nm - total_path[-1].total_penalty")
# ---- C14
mut('C14', 'aggregate aliases the first OMS bitmap again (F1)', 'gnpy/topology/spectrum_assignment.py',
    "    bitmap = spectrum.bitmap.copy()\n", "    bitmap = spectrum.bitmap\n")
mut('C14', 'bitmap_sum treats UNUSABLE as free', 'gnpy/topology/spectrum_assignment.py',
    "        if bit1 in [BitmapValue.UNUSABLE, BitmapValue.OCCUPIED] or bit2 in [BitmapValue.UNUSABLE, BitmapValue.OCCUPIED]:",
    "        if bit1 in [BitmapValue.OCCUPIED] or bit2 in [BitmapValue.UNUSABLE, BitmapValue.OCCUPIED]:")
mut('C14', 'reverse path ignored when collecting the OMS of a request', 'gnpy/topology/spectrum_assignment.py',
    "            path_oms = build_path_oms_id_list(pth + rpth)", "            path_oms = build_path_oms_id_list(pth)")
mut('C14', 'upper guard band compared on the start slot', 'gnpy/topology/spectrum_assignment.py',
    "                      and freq_index[i + 2 * requested_m - 1] <= freq_index_max]",
    "                      and freq_index[i] <= freq_index_max]")
mut('C14', 'spectrum committed before the remaining-bandwidth check', 'gnpy/topology/spectrum_assignment.py',
    "            if remaining_slots_to_serve > 0:\n                rq.N = None\n                rq.M = None\n"
    "                rq.blocking_reason = 'NO_SPECTRUM'\n                continue\n"
    "            for oms_elem in path_oms:\n                for this_n, this_m in zip(selected_n, selected_m):\n"
    "                    if this_m is not None:\n                        oms_list[oms_elem].assign_spectrum(this_n, this_m)\n"
    "                oms_list[oms_elem].add_service(rq.request_id, nb_wl)\n",
    "            for oms_elem in path_oms:\n                for this_n, this_m in zip(selected_n, selected_m):\n"
    "                    if this_m is not None:\n                        oms_list[oms_elem].assign_spectrum(this_n, this_m)\n"
    "            if remaining_slots_to_serve > 0:\n                rq.N = None\n                rq.M = None\n"
    "                rq.blocking_reason = 'NO_SPECTRUM'\n                continue\n"
    "            for oms_elem in path_oms:\n                oms_list[oms_elem].add_service(rq.request_id, nb_wl)\n")
mut('C14', 'last_fit policy silently treated as first_fit for free M', 'gnpy/topology/spectrum_assignment.py',
    "            n, _, _ = spectrum_selection(test_oms, remaining_slots_to_serve, None, policy=policy)",
    "            n, _, _ = spectrum_selection(test_oms, remaining_slots_to_serve, None)")
# ---- C15
mut('C15', 'insert_right duplicates the last index again (F2)', 'gnpy/topology/spectrum_assignment.py',
    "list(range(self.n_max + 1, self.n_max + len(newbitmap) + 1))", "list(range(self.n_max, self.n_max + len(newbitmap)))")
mut('C15', 'create_oms_bitmap one slot short again (F6)', 'gnpy/topology/spectrum_assignment.py',
    "    n_max = frequency_to_n(f_max, grid)\n    common_range", "    n_max = frequency_to_n(f_max, grid) - 1\n    common_range")
mut('C15', 'insert_left range off by one', 'gnpy/topology/spectrum_assignment.py',
    "        temp = list(range(self.n_min - len(newbitmap), self.n_min))",
    "        temp = list(range(self.n_min - len(newbitmap) + 1, self.n_min + 1))")
mut('C15', 'alignment padding marked FREE on the left', 'gnpy/topology/spectrum_assignment.py',
    "            this_o.spectrum_bitmap.insert_left([BitmapValue.OCCUPIED] * (this_o.spectrum_bitmap.n_min - n_min))",
    "            this_o.spectrum_bitmap.insert_left([BitmapValue.FREE] * (this_o.spectrum_bitmap.n_min - n_min))")
mut('C15', 'usable band taken from the first amplifier band only', 'gnpy/topology/spectrum_assignment.py',
    "    i = 1\n    while i < len(common_range):", "    i = len(common_range)\n    while i < len(common_range):")
mut('C15', 'reversed OMS paired on the ingress end only', 'gnpy/topology/spectrum_assignment.py',
    "            if (oms.el_id_list[0] == this_o.el_id_list[-1] and\n                    oms.el_id_list[-1] == this_o.el_id_list[0]):",
    "            if (oms.el_id_list[0] == this_o.el_id_list[-1]):")
# ---- C16
mut('C16', 'per-request deep copy of the path removed', 'gnpy/topology/request.py',
    "        total_path = deepcopy(pathlist[i])", "        total_path = list(pathlist[i])")
mut('C16', 'reverse path propagated on the network objects', 'gnpy/topology/request.py',
    "                rev_p = deepcopy(reversed_path)", "                rev_p = list(reversed_path)")
mut('C16', 'automatic mode writes its choice into the shared library mode', 'gnpy/topology/request.py',
    "                except AttributeError:\n                    pathreq.baud_rate = mode['baud_rate']",
    "                except AttributeError:\n                    mode['OSNR'] = mode['OSNR'] + 0.0 if pathreq.bidir else mode['OSNR'] + 0.5\n"
    "                    pathreq.baud_rate = mode['baud_rate']")
mut('C16', 'planning leaves SimParams modified after a batch with a dense comb', 'gnpy/tools/worker_utils.py',
    "    pths = compute_path_dsjctn(network, equipment, rqs, dsjn)",
    "    pths = compute_path_dsjctn(network, equipment, rqs, dsjn)\n    if len(rqs) > 3:\n"
    "        from gnpy.core.parameters import SimParams\n"
    "        SimParams._shared_dict['nli_params'].dispersion_tolerance = 2")
mut('C16', 'route of a request depends on what was computed before (cached per destination)', 'gnpy/topology/request.py',
    "    trx = [n for n in network if isinstance(n, Transceiver)]\n    source = next(el for el in trx if el.uid == req.source)",
    "    trx = [n for n in network if isinstance(n, Transceiver)]\n    cache = network.graph.setdefault('_last', {})\n"
    "    if (req.source, req.destination) in cache and not req.nodes_list[:-1]:\n"
    "        return list(cache[(req.source, req.destination)])\n"
    "    source = next(el for el in trx if el.uid == req.source)")
# ---- C17
mut('C17', 'design does not restore SimParams after the Raman estimate', 'gnpy/core/network.py',
    "        SimParams.set_params(save_sim_params)\n", "")
mut('C17', 'design restores only the Raman half of SimParams', 'gnpy/core/network.py',
    'save_sim_params = {"raman_params": SimParams._shared_dict[\'raman_params\'].to_json(),\n'
    '                           "nli_params": SimParams._shared_dict[\'nli_params\'].to_json()}',
    'save_sim_params = {"raman_params": SimParams._shared_dict[\'raman_params\'].to_json()}')
mut('C17', 'Edfa export drops in_voa', 'gnpy/core/elements.py',
    "                'out_voa': self.out_voa,\n                'in_voa': self.in_voa\n", "                'out_voa': self.out_voa\n")
mut('C17', 'multiband type variety by set order again (F3)', 'gnpy/core/equipment.py',
    "reduce(lambda x, y: [e for e in x if e in y], listes)", "reduce(lambda x, y: set(x) & set(y), listes)")
mut('C17', 'lumped losses not exported again (F8)', 'gnpy/core/elements.py',
    "        if len(self.params.lumped_losses) > 0:", "        if False:")
mut('C17', 'save_json writes the elements and the rest in two steps', 'gnpy/tools/json_io.py',
    "        json.dump(obj, f, indent=2, ensure_ascii=False)",
    "        f.write(json.dumps(obj, indent=2, ensure_ascii=False)[:2000])\n        f.flush()\n"
    "        f.write(json.dumps(obj, indent=2, ensure_ascii=False)[2000:])")
mut('C17', 'exported gain rounded to one decimal', 'gnpy/core/elements.py',
    "                'gain_target': round(self.effective_gain, 6) if self.effective_gain is not None else None,",
    "                'gain_target': round(self.effective_gain, 1) if self.effective_gain is not None else None,")
# ---- C19
mut('C19', 'reverse metrics taken from the forward path', 'gnpy/topology/request.py',
    "                'z-a-path-metric': path_metric(self.reversed_computed_path, self.path_request),",
    "                'z-a-path-metric': path_metric(self.computed_path, self.path_request),")
mut('C19', 'aggregated bandwidth not summed', 'gnpy/topology/request.py',
    "                this_r.path_bandwidth += req.path_bandwidth\n", "")
mut('C19', 'blocked request keeps its labels when blocked for spectrum', 'gnpy/topology/spectrum_assignment.py',
    "            if remaining_slots_to_serve > 0:\n                rq.N = None\n                rq.M = None\n",
    "            if remaining_slots_to_serve > 0:\n")
mut('C19', 'response reports the mean instead of the min GSNR', 'gnpy/topology/request.py',
    "                    'accumulative-value': round(min(pth[-1].snr_01nm), 2)",
    "                    'accumulative-value': round(mean(pth[-1].snr_01nm), 2)")
mut('C19', 'csv pass flag ignores margin', 'gnpy/topology/request.py',
    "    return (path_bandwidth, output_osnr, output_snr, output_snrbandwidth, output_snr_min, output_snr_max, pdl, cd, pmd,\n"
    "            minosnr + equipment['SI']['default'].sys_margins, baud_rate, power, pth, sptrm, bit_rate), cost",
    "    return (path_bandwidth, output_osnr, output_snr, output_snrbandwidth, output_snr_min, output_snr_max, pdl, cd, pmd,\n"
    "            minosnr, baud_rate, power, pth, sptrm, bit_rate), cost")
mut('C19', 'results zipped with reversed request list when one request is blocked', 'gnpy/tools/worker_utils.py',
    "    result = [ResultElement(rq, pth, rpth) for rq, pth, rpth in zip(rqs, propagatedpths, reversed_propagatedpths)]",
    "    order = list(reversed(rqs)) if len(rqs) == 2 and any(hasattr(r, 'blocking_reason') for r in rqs) else rqs\n"
    "    result = [ResultElement(rq, pth, rpth) for rq, pth, rpth in zip(order, propagatedpths, reversed_propagatedpths)]")


def sh(cmd, **kw):
    return subprocess.run(cmd, shell=True, capture_output=True, text=True, **kw)


def main():
    ap = argparse.ArgumentParser()
    ap.add_argument('--only')
    ap.add_argument('--suite', action='store_true')
    ap.add_argument('--tier-args', default='')
    a = ap.parse_args()
    sh(f'git -C /repo worktree remove --force {WT}')
    r = sh(f'git -C /repo worktree add --detach {WT} HEAD')
    if r.returncode:
        print(r.stderr)
        return 2
    rows = []
    try:
        for m in M:
            if a.only and m['prop'] != a.only:
                continue
            sh(f'git -C {WT} checkout -- .')
            path = WT / m['file']
            src = path.read_text()
            if src.count(m['old']) != 1:
                rows.append({**{k: m[k] for k in ('prop', 'name')}, 'result': f'NOT-APPLICABLE (pattern found {src.count(m["old"])}x)'})
                print(rows[-1])
                continue
            path.write_text(src.replace(m['old'], m['new']))
            imp = sh(f'cd {WT} && PYTHONPATH={WT} /venv/bin/python -c "import gnpy.tools.worker_utils"')
            if imp.returncode:
                rows.append({**{k: m[k] for k in ('prop', 'name')}, 'result': 'DOES-NOT-IMPORT'})
                print(rows[-1])
                continue
            suite = ''
            if a.suite:
                t = sh(f'cd {WT} && PATH=/venv/bin:$PATH PYTHONPATH={WT} /venv/bin/python -m pytest -q -p no:cacheprovider '
                       f'-n 8 --timeout=900 2>&1 | tail -8')
                failed = [ln for ln in t.stdout.splitlines() if ln.startswith('FAILED')]
                known = ('test_commit_authors_in_author_rst', 'test_auto_design_generation_fromxlsgainmode',
                         'test_auto_design_generation_fromjson[json_input0-False]')
                extra = [f for f in failed if not any(k in f for k in known)]
                suite = 'suite-passes' if not extra else f'suite-FAILS({len(extra)})'
            env = dict(os.environ, GNPY_SRC=str(WT))
            c = subprocess.run(f'{VERIF}/check {m["prop"]} --no-evidence {a.tier_args}', shell=True, capture_output=True,
                               text=True, env=env, cwd=str(VERIF))
            kinds = sorted({ln.split('violation ')[1].split(' at step')[0] for ln in c.stdout.splitlines()
                            if ln.strip().startswith('violation ')})
            res = {0: 'MISSED', 1: 'caught', 2: 'HARNESS-ERROR'}.get(c.returncode, f'rc={c.returncode}')
            rows.append({'prop': m['prop'], 'name': m['name'], 'result': res, 'kinds': kinds, 'suite': suite})
            print(json.dumps(rows[-1]))
            sys.stdout.flush()
    finally:
        sh(f'git -C /repo worktree remove --force {WT}')
    (VERIF / 'tools' / 'sensitivity_last.json').write_text(json.dumps(rows, indent=1))
    print(f'caught {sum(r["result"] == "caught" for r in rows)} / {len(rows)}')
    return 0


if __name__ == '__main__':
    sys.exit(main())

#!/bin/bash
# Runs the matching quick check against every seeded change the prescribed way: apply to /repo, run, undo straight afterwards.
# usage: tools/run_seeded.sh [id ...]      results -> seeded/RESULTS.txt
cd /verif
ids="$@"; [ -z "$ids" ] && ids=$(ls seeded | grep -E '^C[0-9]+-')
for id in $ids; do
  prop=${id%%-*}
  if ! git -C /repo diff --quiet; then echo "/repo is dirty, refusing"; exit 2; fi
  git -C /repo apply /verif/seeded/$id/patch.diff || { echo "$id: patch does not apply"; continue; }
  out=$(./check $prop --no-evidence 2>&1); rc=$?
  git -C /repo checkout -- .
  kinds=$(echo "$out" | grep -E "^  violation" | sed -E 's/^  violation ([^ ]+) .*/\1/' | sort -u | tr '\n' ' ')
  echo "$id: check $prop exit $rc; violation kinds: $kinds" | tee -a seeded/RESULTS.txt
done

#!/bin/bash
# Runs the matching quick check against every seeded change.
#   default      : the prescribed way - apply to /repo (git apply), run, undo straight afterwards (git checkout -- .)
#   --worktree   : apply to a scratch worktree of /repo instead and run with GNPY_SRC=<worktree> (use this while a
#                  background run is using /repo)
# usage: tools/run_seeded.sh [--worktree] [id ...]      results -> seeded/RESULTS.txt
cd "$(dirname "$0")/.."
mode=repo; [ "$1" = "--worktree" ] && { mode=worktree; shift; }
ids="$@"; [ -z "$ids" ] && ids=$(ls seeded | grep -E '^C[0-9]+-')
for id in $ids; do
  prop=${id%%-*}
  if [ $mode = repo ]; then
    if ! git -C /repo diff --quiet; then echo "/repo is dirty, refusing"; exit 2; fi
    git -C /repo apply seeded/$id/patch.diff || { echo "$id: patch does not apply"; continue; }
    out=$(./check $prop --no-evidence 2>&1); rc=$?
    git -C /repo checkout -- .
  else
    wt=/tmp/gnpysim-seeded-wt-$$; git -C /repo worktree remove --force $wt >/dev/null 2>&1
    git -C /repo worktree add -q --detach $wt HEAD
    git -C $wt apply $PWD/seeded/$id/patch.diff || { echo "$id: patch does not apply"; git -C /repo worktree remove --force $wt; continue; }
    out=$(GNPY_SRC=$wt ./check $prop --no-evidence 2>&1); rc=$?
    git -C /repo worktree remove --force $wt
  fi
  kinds=$(echo "$out" | grep -E "^  violation" | sed -E 's/^  violation ([^ ]+) .*/\1/' | sort -u | tr '\n' ' ')
  echo "$id: check $prop exit $rc; violation kinds: $kinds" | tee -a seeded/RESULTS.txt
done

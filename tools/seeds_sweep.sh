#!/bin/bash
# False-alarm sweep: every quick check under several VERIF_SEED values on the unchanged tree; any exit != 0 is printed.
# usage: tools/seeds_sweep.sh "1 2 3" ["C13 C16"]
cd "$(dirname "$0")/.."
seeds=${1:-"1 2 3 4 5"}; props=${2:-"C01 C13 C14 C15 C16 C17 C19"}
for s in $seeds; do for p in $props; do
  out=$(VERIF_SEED=$s ./check $p --no-evidence 2>&1); rc=$?
  echo "seed $s $p rc=$rc $(echo "$out" | grep -E 'sessions=' | sed -E 's/.*(sessions=[0-9]+).*(wall=[0-9.]+s).*/\1 \2/')"
  [ $rc -ne 0 ] && echo "$out" | grep -E "violation |VIOLATION|HARNESS" | cut -c1-300 | head -5
done; done
